package main

import (
	"bytes"
	"crypto/ecdsa"
	"crypto/sha256"
	"encoding/asn1"
	"encoding/base64"
	"encoding/json"
	"fmt"
	gobig "math/big"
	"sort"
	"strconv"

	"github.com/fxamacker/cbor"
	"github.com/privacybydesign/gabi"
	"github.com/privacybydesign/gabi/big"
	"github.com/privacybydesign/gabi/gabikeys"
	"github.com/privacybydesign/gabi/rangeproof"
	"github.com/privacybydesign/gabi/revocation"
)

// ---------------------------------------------------------------------------------------------
// Abstract message trees ("model form"): JSON-like values in which big integers are {"$i": hex}
// and byte strings {"$b": hex}. Generators build and mutate trees; the real code receives the
// gabi JSON rendering (treeToGabiJSON), the Lean model the tree itself.
// ---------------------------------------------------------------------------------------------

type T = map[string]any

func I(x *big.Int) any {
	if x == nil {
		return nil
	}
	return T{"$i": x.Go().Text(16)}
}
func B(b []byte) any { return T{"$b": hb(b)} }

func Is(xs []*big.Int) []any {
	r := make([]any, len(xs))
	for i, x := range xs {
		r[i] = I(x)
	}
	return r
}

func Imap(m map[int]*big.Int) T {
	r := T{}
	for k, v := range m {
		r[strconv.Itoa(k)] = I(v)
	}
	return r
}

func isLeafI(t any) (string, bool) {
	m, ok := t.(map[string]any)
	if !ok || len(m) != 1 {
		return "", false
	}
	s, ok := m["$i"].(string)
	return s, ok
}
func isLeafB(t any) (string, bool) {
	m, ok := t.(map[string]any)
	if !ok || len(m) != 1 {
		return "", false
	}
	s, ok := m["$b"].(string)
	return s, ok
}

// treeToGabi renders a tree the way gabi's wire format does: big integers as base64 of their
// big-endian bytes, byte strings as base64.
func treeToGabi(t any) any {
	switch v := t.(type) {
	case map[string]any:
		if h, ok := isLeafI(v); ok {
			z, ok := new(gobig.Int).SetString(h, 16)
			if !ok {
				panic("bad $i")
			}
			if z.Sign() < 0 {
				// negative numbers cannot be written in the base64 form; use the decimal form
				return json.Number(z.String())
			}
			return base64.StdEncoding.EncodeToString(z.Bytes())
		}
		if h, ok := isLeafB(v); ok {
			return base64.StdEncoding.EncodeToString(unhb(h))
		}
		if raw, ok := v["$raw"].(string); ok && len(v) == 1 {
			// a member written by the real encoder at generation time, passed through verbatim
			return json.RawMessage(raw)
		}
		r := map[string]any{}
		for k, x := range v {
			r[k] = treeToGabi(x)
		}
		return r
	case []any:
		r := make([]any, len(v))
		for i, x := range v {
			r[i] = treeToGabi(x)
		}
		return r
	default:
		return v
	}
}

func treeToGabiJSON(t any) []byte {
	b, err := json.Marshal(treeToGabi(t))
	if err != nil {
		panic(err)
	}
	return b
}

func cloneTree(t any) any {
	switch v := t.(type) {
	case map[string]any:
		r := make(map[string]any, len(v))
		for k, x := range v {
			r[k] = cloneTree(x)
		}
		return r
	case []any:
		r := make([]any, len(v))
		for i, x := range v {
			r[i] = cloneTree(x)
		}
		return r
	default:
		return v
	}
}

func saccTree(s *revocation.SignedAccumulator) any {
	if s == nil {
		return nil
	}
	return T{"data": B(s.Data), "pk": int(s.PKCounter)}
}

func nonrevTree(p *revocation.Proof) any {
	if p == nil {
		return nil
	}
	resp := T{}
	for k, v := range p.Responses {
		resp[k] = I(v)
	}
	return T{"C_r": I(p.Cr), "C_u": I(p.Cu), "responses": resp, "sacc": saccTree(p.SignedAccumulator)}
}

func rangeTree(p *rangeproof.Proof) any {
	if p == nil {
		return nil
	}
	return T{"Cs": Is(p.Cs), "ds": Is(p.DResponses), "vs": Is(p.VResponses), "v5": I(p.V5Response),
		"l_d": int(p.Ld), "sign": p.Sign, "a": uint64(p.A), "k": I(p.K)}
}

func proofDTree(p *gabi.ProofD) T {
	t := T{"c": I(p.C), "A": I(p.A), "e_response": I(p.EResponse), "v_response": I(p.VResponse),
		"a_responses": Imap(p.AResponses), "a_disclosed": Imap(p.ADisclosed)}
	if p.NonRevocationProof != nil {
		t["nonrev_proof"] = nonrevTree(p.NonRevocationProof)
	}
	if p.RangeProofs != nil {
		rp := T{}
		for idx, l := range p.RangeProofs {
			arr := make([]any, len(l))
			for i, x := range l {
				arr[i] = rangeTree(x)
			}
			rp[strconv.Itoa(idx)] = arr
		}
		t["rangeproofs"] = rp
	}
	return t
}

func proofUTree(p *gabi.ProofU) T {
	t := T{"U": I(p.U), "c": I(p.C), "v_prime_response": I(p.VPrimeResponse), "s_response": I(p.SResponse)}
	if len(p.MUserResponses) > 0 {
		t["m_user_responses"] = Imap(p.MUserResponses)
	}
	return t
}

func proofTree(p gabi.Proof) T {
	switch v := p.(type) {
	case *gabi.ProofD:
		return proofDTree(v)
	case *gabi.ProofU:
		return proofUTree(v)
	}
	panic("unknown proof type")
}

func proofListTrees(pl gabi.ProofList) []any {
	r := make([]any, len(pl))
	for i, p := range pl {
		r[i] = proofTree(p)
	}
	return r
}

// ---------------------------------------------------------------------------------------------
// Signed accumulators: the ECDSA signature and the CBOR codec are external to the model. The
// harness computes an independent *view* (signature valid under this key? decoded fields) with
// crypto/ecdsa and the cbor library directly, not through gabi's signed/revocation packages.
// ---------------------------------------------------------------------------------------------

type accView struct {
	Nu        *gobig.Int
	Index     uint64
	Time      int64
	EventHash []byte
}

func sigView(data []byte, pub *ecdsa.PublicKey) (ok bool, acc *accView) {
	if pub == nil || data == nil {
		return false, nil
	}
	var tup struct{ Msg, Sig []byte }
	if err := cbor.Unmarshal(data, &tup); err != nil {
		return false, nil
	}
	var sig struct{ R, S *gobig.Int }
	rest, err := asn1.Unmarshal(tup.Sig, &sig)
	if err != nil || len(rest) != 0 {
		return false, nil
	}
	h := sha256.Sum256(tup.Msg)
	if !ecdsa.Verify(pub, h[:], sig.R, sig.S) {
		return false, nil
	}
	// gabi's big.Int travels as its big-endian bytes (encoding.BinaryMarshaler)
	var a struct {
		Nu        []byte
		Index     uint64
		Time      int64
		EventHash []byte
	}
	if err := cbor.Unmarshal(tup.Msg, &a); err != nil {
		return false, nil
	}
	var nu *gobig.Int
	if a.Nu != nil {
		nu = new(gobig.Int).SetBytes(a.Nu)
	}
	return true, &accView{nu, a.Index, a.Time, a.EventHash}
}

// collectSaccData finds all {"data": {"$b":..}} blobs of signed accumulators in a tree.
func collectSaccData(t any, out map[string]bool) {
	switch v := t.(type) {
	case map[string]any:
		if d, ok := v["data"]; ok {
			if h, ok := isLeafB(d); ok {
				out[h] = true
			}
		}
		for _, x := range v {
			collectSaccData(x, out)
		}
	case []any:
		for _, x := range v {
			collectSaccData(x, out)
		}
	}
}

// sigViews lists, for every signed blob in the trees and every listed key, the independent view.
func sigViews(trees any, keys []*KeyPair) []any {
	blobs := map[string]bool{}
	collectSaccData(trees, blobs)
	var hs []string
	for h := range blobs {
		hs = append(hs, h)
	}
	sort.Strings(hs)
	var r []any
	seen := map[string]bool{}
	for _, h := range hs {
		for _, kp := range keys {
			if seen[h+kp.id] {
				continue
			}
			seen[h+kp.id] = true
			ok, acc := sigView(unhb(h), kp.pk.ECDSA)
			e := T{"data": h, "key": kp.id, "sigok": ok}
			if ok {
				var nu any
				if acc.Nu != nil {
					nu = acc.Nu.Text(16)
				}
				e["acc"] = T{"nu": nu, "index": strconv.FormatUint(acc.Index, 16), "time": gobig.NewInt(acc.Time).Text(16), "eventhash": hb(acc.EventHash)}
			}
			r = append(r, e)
		}
	}
	return r
}

// ---------------------------------------------------------------------------------------------
// exec: verifylist / verifyD / verifyU through the real JSON decoder and the real verifier
// ---------------------------------------------------------------------------------------------

func keysOf(o Op, k string) []*gabikeys.PublicKey {
	arr, _ := o[k].([]any)
	r := make([]*gabikeys.PublicKey, len(arr))
	for i, x := range arr {
		r[i] = execKey(x.(string)).pk
	}
	return r
}

func strsOf(v any) []string {
	if v == nil {
		return nil
	}
	arr := v.([]any)
	r := make([]string, len(arr))
	for i, x := range arr {
		r[i] = x.(string)
	}
	return r
}

func hasNonrev(t any) bool {
	switch v := t.(type) {
	case map[string]any:
		if _, ok := v["nonrev_proof"]; ok {
			return true
		}
		for _, x := range v {
			if hasNonrev(x) {
				return true
			}
		}
	case []any:
		for _, x := range v {
			if hasNonrev(x) {
				return true
			}
		}
	}
	return false
}

// snapshot: the numbers of a proof (list) as text, for "verification does not change what it is
// given" (the alpha response, which the verifier itself fills in, and nil members excluded;
// malformed objects that the tree functions cannot walk give "").
func snapshot(ps ...gabi.Proof) (s string) {
	defer func() {
		if recover() != nil {
			s = ""
		}
	}()
	var trees []any
	for _, p := range ps {
		var t any
		switch q := p.(type) {
		case *gabi.ProofD:
			if q == nil {
				continue
			}
			t = proofDTree(q)
		case *gabi.ProofU:
			if q == nil {
				continue
			}
			t = proofTree(q)
		default:
			continue
		}
		if tt, ok := t.(T); ok {
			if nr, ok := tt["nonrev_proof"].(T); ok {
				if rs, ok := nr["responses"].(T); ok {
					delete(rs, "alpha")
				}
			}
		}
		trees = append(trees, t)
	}
	b, err := json.Marshal(trees)
	if err != nil {
		return ""
	}
	return string(b)
}

func verdict(b bool) string {
	if b {
		return "accept"
	}
	return "reject"
}

// repeat runs f several times when the outcome may depend on Go's map iteration order and
// reports the set of outcomes.
func repeat(n int, f func() string) string {
	set := map[string]bool{}
	for i := 0; i < n; i++ {
		set[f()] = true
	}
	var l []string
	for k := range set {
		l = append(l, k)
	}
	sort.Strings(l)
	s := l[0]
	for _, k := range l[1:] {
		s += "|" + k
	}
	return s
}

func safely(f func() string) (res string) {
	defer func() {
		if r := recover(); r != nil {
			res = "panic"
		}
	}()
	return f()
}

func init() {
	executors["verifylist"] = func(o Op) string {
		raw := treeToGabiJSON(o["proofs"])
		pks := keysOf(o, "keys")
		ctx, nonce := unhx(o["context"]), unhx(o["nonce"])
		kss := strsOf(o["kss"])
		n := 1
		if hasNonrev(o["proofs"]) {
			n = 6
		}
		return repeat(n, func() string {
			return safely(func() string {
				var pl gabi.ProofList
				if o.boolean("emptylist") {
					pl = make(gabi.ProofList, 0) // an empty list that is not nil (what an empty builder list builds)
				} else if o.boolean("direct") {
					pl = treesToProofList(o["proofs"])
				} else if err := json.Unmarshal(raw, &pl); err != nil {
					return "decode-error"
				}
				before := snapshot(pl...)
				v := verdict(pl.Verify(pks, ctx, nonce, o.boolean("issig"), kss))
				if after := snapshot(pl...); before != "" && after != "" && after != before {
					return "arguments-changed-" + v
				}
				if o["then_keys"] != nil && v == "accept" {
					// the same (already verified) objects presented under other keys: what a first
					// verification left in them must not make a second one succeed
					if pl.Verify(keysOf(o, "then_keys"), ctx, nonce, o.boolean("issig"), kss) {
						return "accept-then-accepted-under-other-keys"
					}
				}
				if n == 1 {
					// verification is a function of its arguments: asking the same objects again must
					// give the same answer (proofs cache intermediate results between calls)
					if v2 := verdict(pl.Verify(pks, ctx, nonce, o.boolean("issig"), kss)); v2 != v {
						return "unstable-" + v + "-then-" + v2
					}
				}
				return v
			})
		})
	}
	executors["verifyD"] = func(o Op) string {
		raw := treeToGabiJSON(o["proof"])
		pk := execKey(o.str("key")).pk
		ctx, nonce := unhx(o["context"]), unhx(o["nonce"])
		n := 1
		if hasNonrev(o["proof"]) {
			n = 6
		}
		return repeat(n, func() string {
			return safely(func() string {
				p := &gabi.ProofD{}
				if prev := o["decode_after"]; prev != nil {
					// the message is decoded into a variable that held (and verified) another message
					// before, as a server loop reusing its request object does
					if err := json.Unmarshal(treeToGabiJSON(prev), p); err != nil {
						return "decode-error-first"
					}
					p.Verify(pk, ctx, nonce, o.boolean("issig"))
				}
				if o.boolean("direct") {
					p = treeToProofD(o["proof"])
				} else if err := json.Unmarshal(raw, p); err != nil {
					return "decode-error"
				}
				before := snapshot(p)
				v := verdict(p.Verify(pk, ctx, nonce, o.boolean("issig")))
				if after := snapshot(p); before != "" && after != "" && after != before {
					return "arguments-changed-" + v
				}
				if n == 1 {
					if v2 := verdict(p.Verify(pk, ctx, nonce, o.boolean("issig"))); v2 != v {
						return "unstable-" + v + "-then-" + v2
					}
				}
				return v
			})
		})
	}
	// the verification entry point that takes the challenge as given (used after the caller has
	// computed it): on a freshly decoded proof, without anything else having been called on it
	executors["verifyD-with-challenge"] = func(o Op) string {
		raw := treeToGabiJSON(o["proof"])
		pk := execKey(o.str("key")).pk
		return safely(func() string {
			p := &gabi.ProofD{}
			if err := json.Unmarshal(raw, p); err != nil {
				return "decode-error"
			}
			c := p.C
			if o["challenge"] != nil {
				c = unhx(o["challenge"])
			}
			return verdict(p.VerifyWithChallenge(pk, c))
		})
	}
	executors["verifyU"] = func(o Op) string {
		raw := treeToGabiJSON(o["proof"])
		pk := execKey(o.str("key")).pk
		p := &gabi.ProofU{}
		if o.boolean("direct") {
			p = treeToProofU(o["proof"])
		} else if err := json.Unmarshal(raw, p); err != nil {
			return "decode-error"
		}
		return safely(func() string { return verdict(p.Verify(pk, unhx(o["context"]), unhx(o["nonce"]))) })
	}
}

// ---------------------------------------------------------------------------------------------
// credentials
// ---------------------------------------------------------------------------------------------

// issueCred signs (secret, attrs...) with the real signer.
func issueCred(kp *KeyPair, secret *big.Int, attrs []*big.Int) *gabi.Credential {
	ms := append([]*big.Int{secret}, attrs...)
	sig, err := gabi.SignMessageBlock(kp.sk, kp.pk, ms)
	if err != nil {
		panic(err)
	}
	return &gabi.Credential{Signature: sig, Pk: kp.pk, Attributes: ms}
}

func randSecret(g *Rng) *big.Int { return g.bits(255) }

func sortedKeys(m map[int]*big.Int) []int {
	ks := make([]int, 0, len(m))
	for k := range m {
		ks = append(ks, k)
	}
	sort.Ints(ks)
	return ks
}

func jsonEq(a, b any) bool {
	x, _ := json.Marshal(a)
	y, _ := json.Marshal(b)
	return bytes.Equal(x, y)
}

var _ = fmt.Sprint
