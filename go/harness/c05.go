package main

import (
	"fmt"
	"github.com/privacybydesign/gabi"
	"github.com/privacybydesign/gabi/big"
	"sync"
	"sync/atomic"
)

// C05: CL signatures — valid ones verify, invalid ones never do.

func sigOp(kid string, sig *gabi.CLSignature, msgs []*big.Int, class, label string) Op {
	return Op{"op": "cl-verify", "class": class, "label": label, "key": kid,
		"sig":  map[string]any{"A": hx(sig.A), "e": hx(sig.E), "v": hx(sig.V), "KeyshareP": hx(sig.KeyshareP)},
		"msgs": hxs(msgs)}
}

func init() {
	generators["C05"] = genC05
	executors["cl-verify"] = func(o Op) string {
		s := o["sig"].(map[string]any)
		sig := &gabi.CLSignature{A: unhx(s["A"]), E: unhx(s["e"]), V: unhx(s["v"]), KeyshareP: unhx(s["KeyshareP"])}
		pk, msgs := execKey(o.str("key")).pk, unhxs(o["msgs"])
		// a signature object stays what it is by being verified: asked again, same answer, and
		// none of its (or the block's) numbers has changed
		before := showInt(sig.A) + showInt(sig.E) + showInt(sig.V) + showInts(msgs)
		v := verdict(sig.Verify(pk, msgs))
		if v2 := verdict(sig.Verify(pk, msgs)); v2 != v {
			return "unstable-" + v + "-then-" + v2
		}
		if after := showInt(sig.A) + showInt(sig.E) + showInt(sig.V) + showInts(msgs); after != before {
			return "arguments-changed"
		}
		return v
	}
}

// forgeSig builds, with the private key, a signature on ms with the chosen exponent e that
// satisfies the verification equation Z = A^e * R * S^v (* P).
func forgeSig(kp *KeyPair, ms []*big.Int, e, v, ksP *big.Int) *gabi.CLSignature {
	pk := kp.pk
	R := gabi.VerifRepresentToBases(pk.R, ms, pk.N, pk.Params.Lm)
	num := new(big.Int).Exp(pk.S, v, pk.N)
	num.Mul(num, R).Mod(num, pk.N)
	if ksP != nil {
		num.Mul(num, ksP).Mod(num, pk.N)
	}
	inv := new(big.Int).ModInverse(num, pk.N)
	Q := new(big.Int).Mul(pk.Z, inv)
	Q.Mod(Q, pk.N)
	d := new(big.Int).ModInverse(e, kp.sk.Order)
	if d == nil {
		return nil
	}
	A := new(big.Int).Exp(Q, d, pk.N)
	return &gabi.CLSignature{A: A, E: new(big.Int).Set(e), V: new(big.Int).Set(v), KeyshareP: ksP}
}

func nextPrime(x *big.Int, dir int64) *big.Int {
	p := new(big.Int).Set(x)
	if p.Bit(0) == 0 {
		p.Add(p, bi(dir))
	}
	for !p.ProbablyPrime(30) {
		p.Add(p, bi(2*dir))
	}
	return p
}

func init() {
	// several goroutines sign and verify blocks with long oversized messages at the same time: every
	// signature made is valid, every valid signature verifies (what stands in for an oversized
	// message is a function of that message alone)
	executors["cl-concurrent"] = func(o Op) string {
		kp := execKey(o.str("key"))
		n, size, rounds := o.int("goroutines"), o.int("bytes"), o.int("rounds")
		seed := unhx(o["seed"]).Int64()
		blocks := make([][]*big.Int, n)
		sigs := make([]*gabi.CLSignature, n)
		for i := range blocks {
			blocks[i] = []*big.Int{bi(int64(i + 1))}
			for j := 0; j < 3; j++ {
				b := make([]byte, size)
				for k := range b {
					b[k] = byte(seed + int64(i*7+j*13+k*31) + int64(k>>8))
				}
				b[0] |= 0x80
				blocks[i] = append(blocks[i], new(big.Int).SetBytes(b))
			}
			sg, err := gabi.SignMessageBlock(kp.sk, kp.pk, blocks[i])
			if err != nil {
				return "sign-err"
			}
			sigs[i] = sg
		}
		var bad int64
		var wg sync.WaitGroup
		for i := 0; i < n; i++ {
			wg.Add(1)
			go func(i int) {
				defer wg.Done()
				defer func() {
					if recover() != nil {
						atomic.AddInt64(&bad, 1)
					}
				}()
				for r := 0; r < rounds; r++ {
					if !sigs[i].Verify(kp.pk, blocks[i]) {
						atomic.AddInt64(&bad, 1)
					}
					if r%4 == 0 {
						sg, err := gabi.SignMessageBlock(kp.sk, kp.pk, blocks[(i+r)%n])
						if err != nil || !sg.Verify(kp.pk, blocks[(i+r)%n]) {
							atomic.AddInt64(&bad, 1)
						}
					}
				}
			}(i)
		}
		wg.Wait()
		if bad > 0 {
			return fmt.Sprintf("failed %d", bad)
		}
		return "ok"
	}
}

func init() {
	executors["cl-sign"] = func(o Op) string {
		kp := execKey(o.str("key"))
		ms := unhxs(o["msgs"])
		sig, err := gabi.SignMessageBlock(kp.sk, kp.pk, ms)
		if err != nil || sig == nil {
			return "refused"
		}
		if sig.Verify(kp.pk, ms) {
			return "signed-verifies"
		}
		return "signed-but-does-not-verify"
	}
}

func genC05(g *Rng, tier string, emit func(Op)) {
	emit(declKey(fixedKey("k1024a", false)))
	emit(declSk(fixedKey("k1024a", false)))
	// the issuer's side: a negative message longer than the message length is not signed at all
	// (it would be signed as its magnitude's digest), whatever its position; other blocks are
	for j := 0; j < 3; j++ {
		ms := []*big.Int{g.bits(100), g.bits(100), g.bits(100)}
		ms[j] = g.exactBits(257 + g.intn(300))
		emit(Op{"op": "cl-sign", "class": "sign-oversized", "label": "signed-verifies", "nomodel": true, "key": "k1024a", "msgs": hxs(ms)})
		neg := append([]*big.Int{}, ms...)
		neg[j] = new(big.Int).Neg(ms[j])
		emit(Op{"op": "cl-sign", "class": "sign-negative-oversized", "label": "refused", "nomodel": true, "fkey": "C05/sign-negative-oversized", "key": "k1024a", "msgs": hxs(neg)})
	}
	emit(Op{"op": "cl-concurrent", "class": "concurrent-oversized-messages", "label": "ok", "nomodel": true, "fkey": "C05/concurrent-oversized-messages",
		"key": "k1024a", "goroutines": 8, "bytes": 200000, "rounds": 12, "seed": hx(g.bits(40))})
	keys := []*KeyPair{fixedKey("k1024a", false), fixedKey("k1024b", false)}
	rounds := 6
	if tier == "thorough" {
		keys = append(keys, fixedKey("k2048", false), toyKey("toy1", 6))
		rounds = 80
	}
	// the parameter set in which the message length differs from the hash length (Lm 512, Lh 256)
	keys = append(keys, key4096("k4096", 3))
	// parameter sets other than the shipped ones: the exponent interval has 2^(LePrime-1) values,
	// LePrime-1 a multiple of 8 or not
	keys = append(keys, toyKeyWith("toy121", 4, 121), toyKeyWith("toy125", 4, 125))
	for _, kp := range keys {
		emit(declKey(kp))
	}
	for r := 0; r < rounds; r++ {
		for ki, kp := range keys {
			if kp.id == "k4096" && r >= 4 && (tier != "thorough" || r >= 16) {
				continue
			}
			pk := kp.pk
			nb := 1 + g.intn(len(pk.R))
			if r < len(pk.R) {
				nb = r + 1 // every block length
			}
			ms := make([]*big.Int, nb)
			for i := range ms {
				ms[i] = attrValue(g, pk.Params.Lm)
			}
			sig, err := gabi.SignMessageBlock(kp.sk, pk, ms)
			if err != nil {
				panic(err)
			}
			emit(sigOp(kp.id, sig, ms, "honest", "accept"))
			// repeated randomisation
			rs := sig
			for k := 0; k < 1+g.intn(3); k++ {
				next, err := rs.Randomize(pk)
				if err != nil || next == nil {
					// a valid signature that cannot be randomised (again): the signature is the input
					emit(Op{"op": "recorded", "class": "randomize-refused", "label": "randomized", "nomodel": true, "fkey": "C05/randomize-refused",
						"result": fmt.Sprintf("refused: %v", err), "key": kp.id, "sig": map[string]any{"A": hx(rs.A), "e": hx(rs.E), "v": hx(rs.V)}, "msgs": hxs(ms)})
					break
				}
				rs = next
			}
			emit(sigOp(kp.id, rs, ms, "randomized", "accept"))
			// a copy whose v has become negative is randomised again (and again): still a signature
			for k := 0; k < 60; k++ {
				rn, _ := sig.Randomize(pk)
				if rn == nil || rn.V.Sign() >= 0 {
					continue
				}
				cur := rn
				for j := 0; j < 3 && cur != nil; j++ {
					next, err := cur.Randomize(pk)
					if err != nil || next == nil {
						emit(Op{"op": "recorded", "class": "randomize-refused", "label": "randomized", "nomodel": true, "fkey": "C05/randomize-refused",
							"result": fmt.Sprintf("refused: %v", err), "key": kp.id, "sig": map[string]any{"A": hx(cur.A), "e": hx(cur.E), "v": hx(cur.V)}, "msgs": hxs(ms)})
						cur = nil
						break
					}
					cur = next
				}
				if cur != nil {
					emit(sigOp(kp.id, cur, ms, "randomized-negative-v-again", "accept"))
				}
				break
			}
			// randomisation subtracts e*r from v: about every third result has a negative v
			for k := 0; k < 40; k++ {
				if rn, _ := sig.Randomize(pk); rn != nil && rn.V.Sign() < 0 {
					emit(sigOp(kp.id, rn, ms, "randomized-negative-v", "accept"))
					break
				}
			}
			// checked against another block / key / keyshare contribution
			i := g.intn(nb)
			ms2 := append([]*big.Int{}, ms...)
			ms2[i] = new(big.Int).Add(ms[i], bi(1))
			emit(sigOp(kp.id, sig, ms2, "other-block", "reject"))
			// an oversized message negated (in memory; no wire format carries a sign): the hash is over
			// the magnitude, the block is another block
			{
				msn := append([]*big.Int{}, ms...)
				j := g.intn(nb)
				if r%4 < 2 {
					j = 0 // the first message (the slot of the secret key in credentials)
				}
				if r%2 == 0 {
					msn[j] = g.exactBits(int(pk.Params.Lm) + 1 + g.intn(400))
				}
				if msn[j].BitLen() > int(pk.Params.Lm) {
					if sgn, err := gabi.SignMessageBlock(kp.sk, pk, msn); err == nil {
						neg := append([]*big.Int{}, msn...)
						neg[j] = new(big.Int).Neg(msn[j])
						emit(sigOp(kp.id, sgn, neg, "negated-oversized-message", "reject").with("fkey", "C05/negated-oversized-message"))
					}
				}
			}
			if nb > 1 {
				if ms[nb-1].Sign() == 0 {
					// a trailing zero message contributes R^0 = 1: the shorter block is the same block
					emit(sigOp(kp.id, sig, ms[:nb-1], "shorter-block-zero", "accept"))
				} else {
					emit(sigOp(kp.id, sig, ms[:nb-1], "shorter-block", "reject"))
				}
			}
			if nb < len(pk.R) {
				emit(sigOp(kp.id, sig, append(append([]*big.Int{}, ms...), bi(1)), "longer-block", "reject"))
			}
			// a block with more messages than the key has bases is never covered by the signature
			// (the unchanged verifier panics on it, which is not an acceptance)
			{
				over := append([]*big.Int{}, ms...)
				for len(over) <= len(pk.R) {
					over = append(over, attrValue(g, pk.Params.Lm))
				}
				if over[len(over)-1].Sign() == 0 {
					over[len(over)-1] = bi(1)
				}
				emit(sigOp(kp.id, sig, over, "more-messages-than-bases", "reject|panic"))
			}
			other := keys[(ki+1)%len(keys)]
			if nb <= len(other.pk.R) && other != kp {
				emit(sigOp(other.id, sig, ms, "other-key", "reject"))
			}
			ksP := new(big.Int).Exp(pk.R[0], g.bits(255), pk.N)
			withKs := *sig
			withKs.KeyshareP = ksP
			emit(sigOp(kp.id, &withKs, ms, "foreign-keyshare", "reject"))
			// contributions that are no group elements: a signature made without a contribution
			// does not verify with one, whatever number it is
			for _, p := range []*big.Int{bi(0), new(big.Int).Set(pk.N), new(big.Int).Add(pk.N, pk.R[0]), new(big.Int).Add(new(big.Int).Lsh(pk.N, 1), bi(2)), new(big.Int).Sub(pk.N, bi(1)), bi(2)} {
				wk := *sig
				wk.KeyshareP = p
				emit(sigOp(kp.id, &wk, ms, "foreign-keyshare-out-of-range", "reject").with("fkey", "C05/foreign-keyshare-out-of-range"))
			}
			// a signature made *with* a keyshare contribution verifies only with it
			v := new(big.Int).Lsh(bi(1), pk.Params.Lv-1)
			v.Add(v, g.bits(int(pk.Params.Lv-1)))
			// the prescribed exponent length, from the base lengths (not from the derived parameter
			// the code under test computed): le = lstatzk + lh + lm + 5
			specLe := pk.Params.Lstatzk + pk.Params.Lh + pk.Params.Lm + 5
			start := new(big.Int).Lsh(bi(1), specLe-1)
			end := new(big.Int).Add(start, new(big.Int).Lsh(bi(1), pk.Params.LePrime-1))
			eIn := nextPrime(new(big.Int).Add(start, g.bits(int(pk.Params.LePrime-1))), 1)
			if eIn.Cmp(end) <= 0 {
				if f := forgeSig(kp, ms, eIn, v, ksP); f != nil {
					emit(sigOp(kp.id, f, ms, "with-keyshare", "accept"))
					// ... and stays valid under (repeated) randomisation, contribution included
					fr := f
					for k := 0; k < 3 && fr != nil; k++ {
						if fr, _ = fr.Randomize(pk); fr != nil {
							emit(sigOp(kp.id, fr, ms, "with-keyshare-randomized", "accept"))
						}
					}
					noKs := *f
					noKs.KeyshareP = nil
					emit(sigOp(kp.id, &noKs, ms, "keyshare-dropped", "reject"))
				}
			}
			// single-component alterations
			for _, alt := range []string{"A", "e", "v"} {
				s2 := *sig
				switch alt {
				case "A":
					s2.A = new(big.Int).Add(sig.A, bi(1))
				case "e":
					s2.E = new(big.Int).Add(sig.E, bi(2))
				case "v":
					s2.V = new(big.Int).Add(sig.V, bi(1))
				}
				emit(sigOp(kp.id, &s2, ms, "altered-"+alt, "reject"))
			}
			// algebraically valid forgeries that violate the side conditions on e
			type fc struct {
				class, label string
				e            *big.Int
			}
			cases := []fc{
				{"e-first-prime-inside", "accept", nextPrime(start, 1)},
				{"e-last-prime-inside", "accept", nextPrime(end, -1)},
				{"e-prime-below-interval", "reject", nextPrime(new(big.Int).Sub(start, bi(1)), -1)},
				{"e-prime-above-interval", "reject", nextPrime(new(big.Int).Add(end, bi(1)), 1)},
				{"e-small-prime", "reject", []*big.Int{bi(3), bi(5), bi(65537), nextPrime(g.exactBits(120), 1)}[g.intn(4)]},
				{"e-far-above", "reject", nextPrime(g.exactBits(int(specLe)+1+g.intn(40)), 1)},
			}
			// composites inside the interval: product of two primes, a square, a Carmichael-like multiple
			pa := nextPrime(g.exactBits(int(specLe)/2), 1)
			comp := new(big.Int).Div(new(big.Int).Add(start, g.bits(int(pk.Params.LePrime-2))), pa)
			comp = nextPrime(comp, 1)
			comp.Mul(comp, pa)
			if comp.Cmp(start) >= 0 && comp.Cmp(end) <= 0 {
				cases = append(cases, fc{"e-composite-inside", "reject", comp})
			}
			odd := new(big.Int).Add(start, g.bits(int(pk.Params.LePrime-1)))
			odd.SetBit(odd, 0, 1)
			if !odd.ProbablyPrime(30) && odd.Cmp(end) <= 0 {
				cases = append(cases, fc{"e-composite-inside", "reject", odd})
			}
			for _, c := range cases {
				if f := forgeSig(kp, ms, c.e, v, nil); f != nil {
					emit(sigOp(kp.id, f, ms, c.class, c.label))
				}
			}
		}
	}
}
