package main

import (
	"fmt"
	"strconv"

	"github.com/privacybydesign/gabi"
	"github.com/privacybydesign/gabi/big"
	"github.com/privacybydesign/gabi/rangeproof"
	"github.com/privacybydesign/gabi/revocation"
)

// C03: linked proofs share one secret key.

func init() { generators["C03"] = genC03 }

// buildMixedSecrets builds one proof list whose members hold the given secrets (one shared
// challenge and one shared secret-key randomiser, as the real builders do).
func buildMixedSecrets(g *Rng, kps []*KeyPair, issuance []bool, secrets []*big.Int, issig bool) ([]any, []gabi.Proof, *big.Int, *big.Int) {
	ctx, nonce := g.bits(256), g.bits(128)
	var builders gabi.ProofBuilderList
	for i, kp := range kps {
		pk := kp.pk
		if issuance[i] {
			b, err := gabi.NewCredentialBuilder(pk, ctx, secrets[i], g.bits(128), nil, nil)
			if err != nil {
				panic(err)
			}
			builders = append(builders, b)
			continue
		}
		attrs := []*big.Int{attrValue(g, pk.Params.Lm), attrValue(g, pk.Params.Lm)}
		cred := issueCred(kp, secrets[i], attrs)
		var disclosed []int
		if g.coin() {
			disclosed = []int{1}
		}
		b, err := cred.CreateDisclosureProofBuilder(disclosed, nil, false)
		if err != nil {
			panic(err)
		}
		builders = append(builders, b)
	}
	pl, err := builders.BuildProofList(ctx, nonce, issig)
	if err != nil {
		panic(err)
	}
	return proofListTrees(pl), pl, ctx, nonce
}

// labelAccepts: by construction a list is acceptable iff within every label class all secrets
// are equal (no labels: one class).
func labelAccepts(secretIdx []int, kss []string) bool {
	class := map[string]int{}
	for i, s := range secretIdx {
		l := ""
		if len(kss) > 0 {
			l = kss[i]
		}
		if prev, ok := class[l]; ok {
			if prev != s {
				return false
			}
		} else {
			class[l] = s
		}
	}
	return true
}

func genC03(g *Rng, tier string, emit func(Op)) {
	ka, kb := fixedKey("k1024a", false), fixedKey("k1024b", false)
	pool := []*KeyPair{ka, kb}
	rounds := 3
	if tier == "thorough" {
		pool = append(pool, fixedKey("k2048", false))
		rounds = 25
	}
	for _, k := range pool {
		emit(declKey(k))
	}
	// mirrored secrets, in memory (the wire format carries no negative numbers): a disclosure
	// proof for secret s with randomiser r next to an issuance commitment for secret -s with
	// randomiser -r. Each verifies for the joint challenge; their secret-key responses are r+cs and
	// -(r+cs): different secrets, different responses, the list must fail.
	for _, kp := range pool[:1] {
		pk := kp.pk
		s, rnd := randSecret(g), g.bits(int(pk.Params.LmCommit)-2)
		ctx, nonce := g.bits(256), g.bits(128)
		cred := issueCred(kp, s, []*big.Int{g.bits(60), g.bits(60)})
		bD, err := cred.CreateDisclosureProofBuilder([]int{1}, nil, false)
		if err != nil {
			panic(err)
		}
		bU, err := gabi.NewCredentialBuilder(pk, ctx, new(big.Int).Neg(s), g.bits(128), nil, nil)
		if err != nil {
			panic(err)
		}
		c1, err1 := bD.Commit(map[string]*big.Int{"secretkey": rnd})
		c2, err2 := bU.Commit(map[string]*big.Int{"secretkey": new(big.Int).Neg(rnd)})
		if err1 == nil && err2 == nil {
			c := gabi.VerifCreateChallenge(ctx, nonce, append(append([]*big.Int{}, c1...), c2...), false)
			pl := gabi.ProofList{bD.CreateProof(c), bU.CreateProof(c)}
			trees := proofListTrees(pl)
			for _, kss := range [][]string{nil, {"ks", "ks"}} {
				o := listOp([]*KeyPair{kp, kp}, trees, ctx, nonce, false, kss, "mirrored-secrets-in-memory", "reject")
				o["direct"] = true
				o["fkey"] = "C03/mirrored-secrets"
				emit(o)
			}
			// control: each of them alone is a valid proof for the joint challenge's session? (no:
			// the challenge covers both) - the honest same-secret pair is the control
		}
	}
	for _, kp := range pool[:1] {
		for _, o := range pooledSecretsOps(g, kp) {
			emit(o)
		}
	}
	{
		kr := fixedKey("k1024a", true)
		emit(declKey(kr))
		for _, o := range pooledSecretsOpsNr(g, kr, true) {
			emit(o)
		}
	}
	for _, issig := range []bool{false, true} {
		for _, o := range forgedNonunitUOps(g, ka, g.bits(256), g.bits(128), issig, "C03/forged-nonunit-U") {
			emit(o)
		}
	}
	emit(declSk(ka))
	for i := 0; i < 2; i++ {
		emit(Op{"op": "list-reverify-after-merge", "class": "reverified-after-response-overwritten", "label": "reject", "nomodel": true, "fkey": "C03/reverify-after-merge",
			"key": ka.id, "s1": hx(randSecret(g)), "s2": hx(randSecret(g)), "issig": i == 1})
	}
	for i := 0; i < 2; i++ {
		emit(Op{"op": "list-shared-number", "class": "shared-number-object", "label": "reject", "nomodel": true, "fkey": "C03/shared-number-object",
			"key": ka.id, "s1": hx(randSecret(g)), "s2": hx(randSecret(g)), "issig": i == 1})
	}
	secrets := []*big.Int{randSecret(g), randSecret(g), randSecret(g)}
	for r := -3; r < rounds; r++ {
		for n := 2; n <= 4; n++ {
			kps := make([]*KeyPair, n)
			iss := make([]bool, n)
			sidx := make([]int, n)
			nsec := 1 + g.intn(3)
			for i := range kps {
				kps[i] = pool[g.intn(len(pool))]
				iss[i] = g.intn(3) == 0
				sidx[i] = g.intn(nsec)
			}
			if r < 0 {
				// fixed shapes first, so that every adversarial class below occurs in every run: two
				// members with different secrets, both issuance / both disclosure / one of each
				if n > 2 {
					continue
				}
				sidx = []int{0, 1}
				iss = [][]bool{{true, true}, {false, false}, {true, false}}[r+3]
			}
			ss := make([]*big.Int, n)
			for i := range ss {
				ss[i] = secrets[sidx[i]]
			}
			trees, pl, ctx, nonce := buildMixedSecrets(g, kps, iss, ss, g.coin())
			issig := false
			_ = issig
			// labellings: nil, all-equal, every partition into labels a/b/c (by assignment)
			labellings := [][]string{nil}
			all := make([]string, n)
			for i := range all {
				all[i] = "ks"
			}
			labellings = append(labellings, all)
			for k := 0; k < 6; k++ {
				l := make([]string, n)
				for i := range l {
					l[i] = []string{"a", "b", "c", ""}[g.intn(4)]
				}
				labellings = append(labellings, l)
			}
			// the labelling that mirrors the secrets exactly (must accept)
			mirror := make([]string, n)
			for i := range mirror {
				mirror[i] = "s" + strconv.Itoa(sidx[i])
			}
			labellings = append(labellings, mirror)
			sig := trees[0].(T)["c"] != nil
			_ = sig
			for _, kss := range labellings {
				label := "reject"
				if labelAccepts(sidx, kss) {
					label = "accept"
				}
				o := listOp(kps, trees, ctx, nonce, false, kss, fmt.Sprintf("labels-%s", label), label)
				// the session kind the list was built for
				o["issig"] = listIssig(pl, kps, ctx, nonce)
				emit(o)
			}
			// adversarial: equalise the reported secret-key responses of two members holding
			// different secrets. (a) ProofU: move the difference into a second response for base R_0.
			for i := 0; i < n; i++ {
				for j := 0; j < n; j++ {
					if i == j || sidx[i] == sidx[j] {
						continue
					}
					target := pl[j].SecretKeyResponse()
					mine := pl[i].SecretKeyResponse()
					delta := new(big.Int).Sub(mine, target)
					if delta.Sign() < 0 {
						continue
					}
					t2 := cloneTree(any(trees)).([]any)
					if pu, ok := pl[i].(*gabi.ProofU); ok {
						_ = pu
						ti := t2[i].(T)
						ti["s_response"] = I(target)
						mu, _ := ti["m_user_responses"].(T)
						if mu == nil {
							mu = T{}
						}
						mu["0"] = I(delta)
						ti["m_user_responses"] = mu
						o := listOp(kps, t2, ctx, nonce, false, nil, "second-R0-response", "reject")
						o["issig"] = listIssig(pl, kps, ctx, nonce)
						o["fkey"] = "C03/second-R0-response"
						emit(o)
					} else if pd, ok := pl[i].(*gabi.ProofD); ok {
						// (b) ProofD: split attribute 0 into a disclosed part x and the hidden rest so
						// that the reported response equals the target: s - c*x = target
						c := pd.C
						x, rem := new(big.Int).DivMod(delta, c, new(big.Int))
						if rem.Sign() != 0 || x.BitLen() > int(kps[i].pk.Params.Lm) {
							// choose x = floor(delta/c); the remainder cannot be absorbed: skip unless exact
							continue
						}
						ti := t2[i].(T)
						ti["a_responses"].(T)["0"] = I(target)
						ti["a_disclosed"].(T)["0"] = I(x)
						o := listOp(kps, t2, ctx, nonce, false, nil, "split-secret", "reject")
						o["issig"] = listIssig(pl, kps, ctx, nonce)
						o["fkey"] = "C03/split-secret"
						emit(o)
					}
				}
			}
			// a member whose challenge contribution cannot be reconstructed at all (non-unit A, a
			// range proof without content), holding ANOTHER secret, appended to the genuine list with
			// the genuine challenge and secret-key response copied in: nothing binds it, it must
			// make the whole list fail
			if pd0 := firstProofD(pl); pd0 >= 0 {
				okp := kps[pd0]
				other := issueCred(okp, randSecret(g), []*big.Int{g.bits(60), g.bits(60), g.bits(60)})
				op, err := other.CreateDisclosureProof([]int{1}, nil, false, ctx, nonce)
				if err != nil {
					panic(err)
				}
				for vi, variant := range []string{"nonunit-A", "empty-rangeproof", "nonunit-A-first"} {
					tm := proofDTree(op)
					tm["c"] = cloneTree(trees[pd0].(T)["c"])
					tm["a_responses"].(T)["0"] = cloneTree(trees[pd0].(T)["a_responses"].(T)["0"])
					switch variant {
					case "nonunit-A", "nonunit-A-first":
						tm["A"] = I(bi(0))
					case "empty-rangeproof":
						tm["rangeproofs"] = T{"3": []any{T{}}}
					}
					t2 := append(cloneTree(any(trees)).([]any), any(tm))
					k2 := append(append([]*KeyPair{}, kps...), okp)
					if variant == "nonunit-A-first" {
						t2 = append([]any{any(tm)}, cloneTree(any(trees)).([]any)...)
						k2 = append([]*KeyPair{okp}, kps...)
					}
					for _, kss := range [][]string{nil, ksAll(len(t2))} {
						o := listOp(k2, t2, ctx, nonce, false, kss, "unbound-member-"+variant, "reject")
						o["issig"] = listIssig(pl, kps, ctx, nonce)
						o["fkey"] = "C03/unbound-member"
						emit(o)
					}
					_ = vi
				}
			}
			// disclose attribute 0 outright in one member (no secret-key response left)
			for i := 0; i < n; i++ {
				if _, ok := pl[i].(*gabi.ProofD); !ok {
					continue
				}
				t2 := cloneTree(any(trees)).([]any)
				ti := t2[i].(T)
				ti["a_disclosed"].(T)["0"] = I(ss[i])
				delete(ti["a_responses"].(T), "0")
				o := listOp(kps, t2, ctx, nonce, false, nil, "secret-disclosed", "reject")
				o["issig"] = listIssig(pl, kps, ctx, nonce)
				emit(o)
			}
		}
	}
}

// listIssig finds the session kind a list was built for (the builder picks it at random).
func listIssig(pl gabi.ProofList, kps []*KeyPair, ctx, nonce *big.Int) bool {
	return pl.Verify(pksOf(kps), ctx, nonce, true, distinctLabels(len(pl)))
}

func pksOf(kps []*KeyPair) []*gabikeysPublicKey {
	r := make([]*gabikeysPublicKey, len(kps))
	for i, k := range kps {
		r[i] = k.pk
	}
	return r
}

func distinctLabels(n int) []string {
	r := make([]string, n)
	for i := range r {
		r[i] = "l" + strconv.Itoa(i)
	}
	return r
}

func firstProofD(pl gabi.ProofList) int {
	for i, p := range pl {
		if _, ok := p.(*gabi.ProofD); ok {
			return i
		}
	}
	return -1
}

func ksAll(n int) []string {
	l := make([]string, n)
	for i := range l {
		l[i] = "ks"
	}
	return l
}

// unboundMemberOps: a crafted ProofD (another secret, another credential) whose challenge
// contribution cannot be reconstructed, carrying the challenge and the secret-key response of a
// genuine member, appended to (or put in front of) a genuine list. Label: reject.
func unboundMemberOps(g *Rng, kps []*KeyPair, trees []any, ctx, nonce *big.Int, issig bool, fkey string) []Op {
	pd0 := -1
	for i, t := range trees {
		if tt, ok := t.(T); ok && tt["A"] != nil {
			pd0 = i
			break
		}
	}
	if pd0 < 0 {
		return nil
	}
	okp := kps[pd0]
	other := issueCred(okp, randSecret(g), []*big.Int{g.bits(60), g.bits(60), g.bits(60)})
	op, err := other.CreateDisclosureProof([]int{1}, nil, false, ctx, nonce)
	if err != nil {
		panic(err)
	}
	var ops []Op
	for _, variant := range []string{"nonunit-A", "empty-rangeproof", "nonunit-A-first"} {
		tm := proofDTree(op)
		tm["c"] = cloneTree(trees[pd0].(T)["c"])
		tm["a_responses"].(T)["0"] = cloneTree(trees[pd0].(T)["a_responses"].(T)["0"])
		if variant == "empty-rangeproof" {
			tm["rangeproofs"] = T{"3": []any{T{}}}
		} else {
			tm["A"] = I(bi(0))
		}
		t2 := append(cloneTree(any(trees)).([]any), any(tm))
		k2 := append(append([]*KeyPair{}, kps...), okp)
		if variant == "nonunit-A-first" {
			t2 = append([]any{any(tm)}, cloneTree(any(trees)).([]any)...)
			k2 = append([]*KeyPair{okp}, kps...)
		}
		o := listOp(k2, t2, ctx, nonce, issig, nil, "unbound-member-"+variant, "reject")
		o["fkey"] = fkey
		ops = append(ops, o)
		// the crafted member alone, with the challenge of a list that contributes nothing
		if variant != "nonunit-A-first" {
			ta := cloneTree(tm).(T)
			ta["c"] = I(gabi.VerifCreateChallenge(ctx, nonce, nil, issig))
			oa := listOp([]*KeyPair{okp}, []any{any(ta)}, ctx, nonce, issig, nil, "unbound-member-alone-"+variant, "reject")
			oa["fkey"] = fkey
			ops = append(ops, oa)
		}
	}
	// an issuance commitment that is no group element (0, N): nothing can be reconstructed from
	// it, whatever its responses; the genuine members are made for a challenge that counts it in
	// as (U, 0), its secret-key response is copied from a genuine member afterwards
	ops = append(ops, forgedNonunitUOps(g, okp, ctx, nonce, issig, fkey)...)
	return ops
}

func forgedNonunitUOps(g *Rng, kp *KeyPair, ctx, nonce *big.Int, issig bool, fkey string) []Op {
	pk := kp.pk
	var ops []Op
	for _, u := range []*big.Int{bi(0), new(big.Int).Set(pk.N)} {
		cred := issueCred(kp, randSecret(g), []*big.Int{g.bits(60), g.bits(60)})
		b, err := cred.CreateDisclosureProofBuilder([]int{1}, nil, false)
		if err != nil {
			panic(err)
		}
		contribs, err := b.Commit(map[string]*big.Int{"secretkey": g.bits(int(pk.Params.LmCommit) - 2)})
		if err != nil {
			panic(err)
		}
		c := gabi.VerifCreateChallenge(ctx, nonce, append(append([]*big.Int{}, contribs...), u, bi(0)), issig)
		pd := b.CreateProof(c).(*gabi.ProofD)
		forged := T{"U": I(u), "c": I(c), "v_prime_response": I(g.bits(300)), "s_response": I(pd.AResponses[0])}
		o := listOp([]*KeyPair{kp, kp}, []any{any(proofDTree(pd)), any(forged)}, ctx, nonce, issig, nil, "forged-nonunit-U", "reject")
		o["fkey"] = fkey
		ops = append(ops, o)
		// alone, as the commitment proof of an issuance session (with a blind-attribute response too)
		ca := gabi.VerifCreateChallenge(ctx, nonce, []*big.Int{u, bi(0)}, issig)
		for _, extra := range []bool{false, true} {
			fa := T{"U": I(u), "c": I(ca), "v_prime_response": I(g.bits(300)), "s_response": I(g.bits(300))}
			if extra {
				fa["m_user_responses"] = T{"1": I(g.bits(200))}
			}
			oa := listOp([]*KeyPair{kp}, []any{any(fa)}, ctx, nonce, issig, nil, "forged-nonunit-U-alone", "reject")
			oa["fkey"] = fkey
			ops = append(ops, oa)
		}
	}
	return ops
}

// pooledSecretsOps: two holders of ordinary credentials of one issuer over different secrets
// m1 != m2 pool everything. With A'_k = A_k * R_0^{t_k} the representation of Z has the R_0
// exponent m_k - t_k*e_k; e_1, e_2 are distinct primes, so t_1, t_2 exist making both exponents
// the same mu (about 2*l_e bits). Both proofs then prove knowledge of the same R_0 exponent with
// the same response. Only the size bound on the attribute responses stands in the way.
func pooledSecretsOps(g *Rng, kp *KeyPair) []Op { return pooledSecretsOpsNr(g, kp, false) }

// with nonrev every member also carries a valid non-revocation proof (for its own witness)
func pooledSecretsOpsNr(g *Rng, kp *KeyPair, nonrev bool) []Op {
	pk := kp.pk
	m1, m2 := randSecret(g), randSecret(g)
	if m1.Cmp(m2) == 0 {
		return nil
	}
	a1, a2 := []*big.Int{g.bits(60), g.bits(60)}, []*big.Int{g.bits(60), g.bits(60)}
	var w1, w2 *revocation.Witness
	if nonrev {
		ir := newIssuerRev(g, kp)
		w1, w2 = ir.witnessFor(), ir.witnessFor()
		a1, a2 = append(a1, w1.E), append(a2, w2.E)
	}
	cred1 := issueCred(kp, m1, a1)
	cred2 := issueCred(kp, m2, a2)
	e1, e2 := cred1.Signature.E, cred2.Signature.E
	if e1.Cmp(e2) == 0 {
		return nil
	}
	d := new(big.Int).Sub(m1, m2)
	t1 := new(big.Int).ModInverse(e1, e2)
	if t1 == nil {
		return nil
	}
	t1.Mul(t1, d).Mod(t1, e2).Sub(t1, e2)
	t2 := new(big.Int).Mul(t1, e1)
	t2.Sub(t2, d).Div(t2, e2)
	mu := new(big.Int).Sub(m1, new(big.Int).Mul(t1, e1))
	if mu.Cmp(new(big.Int).Sub(m2, new(big.Int).Mul(t2, e2))) != 0 || mu.Sign() <= 0 {
		panic("pooled secrets: euclid")
	}
	powSigned := func(b, e *big.Int) *big.Int {
		if e.Sign() >= 0 {
			return new(big.Int).Exp(b, e, pk.N)
		}
		inv := new(big.Int).ModInverse(b, pk.N)
		return new(big.Int).Exp(inv, new(big.Int).Neg(e), pk.N)
	}
	shifted := func(cred *gabi.Credential, shift *big.Int) *gabi.Credential {
		a := new(big.Int).Mul(cred.Signature.A, powSigned(pk.R[0], shift))
		a.Mod(a, pk.N)
		attrs := append([]*big.Int{mu}, cred.Attributes[1:]...)
		z := new(big.Int).Exp(a, cred.Signature.E, pk.N)
		z.Mul(z, powSigned(pk.S, cred.Signature.V)).Mod(z, pk.N)
		for i, attr := range attrs {
			z.Mul(z, new(big.Int).Exp(pk.R[i], attr, pk.N)).Mod(z, pk.N)
		}
		if z.Cmp(pk.Z) != 0 {
			panic("pooled secrets: shifted representation")
		}
		return &gabi.Credential{Pk: pk, Signature: &gabi.CLSignature{A: a, E: cred.Signature.E, V: cred.Signature.V}, Attributes: attrs, NonRevocationWitness: cred.NonRevocationWitness}
	}
	cred1.NonRevocationWitness, cred2.NonRevocationWitness = w1, w2
	var out []Op
	for _, issig := range []bool{false, true} {
		ctx, nonce := g.bits(256), g.bits(128)
		b1, err1 := shifted(cred1, t1).CreateDisclosureProofBuilder([]int{1}, nil, nonrev)
		b2, err2 := shifted(cred2, t2).CreateDisclosureProofBuilder([]int{2}, nil, nonrev)
		if err1 != nil || err2 != nil {
			panic("pooled secrets: builders")
		}
		builders := gabi.ProofBuilderList{b1, b2}
		rnd := map[string]*big.Int{"secretkey": g.bits(int(pk.Params.LmCommit) - 2)}
		c, err := builders.ChallengeWithRandomizers(ctx, nonce, rnd, issig)
		if err != nil {
			panic(err)
		}
		pl, err := builders.BuildDistributedProofList(c, nil)
		if err != nil {
			panic(err)
		}
		resp := new(big.Int).Mul(c, mu)
		resp.Add(resp, rnd["secretkey"])
		for _, p := range pl {
			p.(*gabi.ProofD).AResponses[0] = new(big.Int).Set(resp)
		}
		trees := proofListTrees(pl)
		for _, kss := range [][]string{nil, {"ks", "ks"}, {"a", "b"}} {
			class := "pooled-secrets-shifted-A"
			if nonrev {
				class += "-with-nonrevocation-proofs"
			}
			o := listOp([]*KeyPair{kp, kp}, trees, ctx, nonce, issig, kss, class, "reject")
			o["fkey"] = "C03/pooled-secrets"
			out = append(out, o)
		}
	}
	return out
}

func init() {
	// in-memory lists may share number objects between members (the prover passes pointers): two
	// holders with different secrets, the second with a range statement on its secret key whose
	// carried response is the very object of the first member's secret-key response. Verification
	// reads its arguments; the verdict is that of the numbers as they were handed in.
	executors["list-shared-number"] = func(o Op) string {
		kp := execKey(o.str("key"))
		pk := kp.pk
		s1, s2 := unhx(o["s1"]), unhx(o["s2"])
		c1 := issueCred(kp, s1, []*big.Int{bi(11), bi(12)})
		c2 := issueCred(kp, s2, []*big.Int{bi(21), bi(22)})
		b1, err := c1.CreateDisclosureProofBuilder([]int{1}, nil, false)
		if err != nil {
			return "builder-err"
		}
		st, err := rangeproof.NewStatement(rangeproof.GreaterOrEqual, bi(5))
		if err != nil {
			return "statement-err"
		}
		b2, err := c2.CreateDisclosureProofBuilder([]int{2}, map[int][]*rangeproof.Statement{0: {st}}, false)
		if err != nil {
			return "builder-err"
		}
		ctx, nonce := bi(1), bi(77)
		pl, err := gabi.ProofBuilderList{b1, b2}.BuildProofList(ctx, nonce, o.boolean("issig"))
		if err != nil {
			return "build-err"
		}
		p1, p2 := pl[0].(*gabi.ProofD), pl[1].(*gabi.ProofD)
		if len(p2.RangeProofs[0]) != 1 {
			return "no-range-proof"
		}
		before := showInt(p1.AResponses[0])
		p2.RangeProofs[0][0].MResponse = p1.AResponses[0]
		v := verdict(pl.Verify([]*gabikeysPublicKey{pk, pk}, ctx, nonce, o.boolean("issig"), nil))
		if showInt(p1.AResponses[0]) != before {
			return "arguments-changed-" + v
		}
		return v
	}
}

// ownChallengeMemberOps: a crafted second member whose own challenge field is a constant of the
// forger's choosing (so that its contribution is fixed before the list challenge exists), with
// A = R_0^-1 and e-response = secret-key response = the genuine first member's secret-key
// response (the two cancel in the reconstruction). It reports values nobody signed. Every member
// of a list is checked against the list's challenge.
func ownChallengeMemberOps(g *Rng, kp *KeyPair, ctx, nonce *big.Int, issig bool, fkey string) []Op {
	pk := kp.pk
	var ops []Op
	for _, c2 := range []*big.Int{bi(0), g.bits(200)} {
		cred := issueCred(kp, randSecret(g), []*big.Int{g.bits(60), g.bits(60)})
		b, err := cred.CreateDisclosureProofBuilder([]int{1}, nil, false)
		if err != nil {
			panic(err)
		}
		contribs, err := b.Commit(map[string]*big.Int{"secretkey": g.bits(int(pk.Params.LmCommit) - 2)})
		if err != nil {
			panic(err)
		}
		a2 := new(big.Int).ModInverse(pk.R[0], pk.N)
		disclosed := map[int]*big.Int{1: bi(424242)}
		v, r2 := g.bits(int(pk.Params.LvCommit)-2), g.bits(int(pk.Params.LmCommit)-2)
		// Z2 = (Z / (R_1^424242 * A2^(2^(le-1))))^(-c2) * S^v * R_2^r2   (the R_0 parts cancel)
		num := new(big.Int).Exp(a2, new(big.Int).Lsh(bi(1), pk.Params.Le-1), pk.N)
		num.Mul(num, new(big.Int).Exp(pk.R[1], disclosed[1], pk.N)).Mod(num, pk.N)
		known := new(big.Int).Mul(pk.Z, new(big.Int).ModInverse(num, pk.N))
		known.Mod(known, pk.N)
		z2 := new(big.Int).Exp(new(big.Int).ModInverse(known, pk.N), c2, pk.N)
		z2.Mul(z2, new(big.Int).Exp(pk.S, v, pk.N)).Mod(z2, pk.N)
		z2.Mul(z2, new(big.Int).Exp(pk.R[2], r2, pk.N)).Mod(z2, pk.N)
		c := gabi.VerifCreateChallenge(ctx, nonce, append(append([]*big.Int{}, contribs...), a2, z2), issig)
		p1 := b.CreateProof(c).(*gabi.ProofD)
		s := p1.AResponses[0]
		forged := T{"A": I(a2), "c": I(c2), "e_response": I(s), "v_response": I(v),
			"a_responses": T{"0": I(s), "2": I(r2)}, "a_disclosed": T{"1": I(disclosed[1])}}
		for _, kss := range [][]string{nil, {"ks", "ks"}} {
			o := listOp([]*KeyPair{kp, kp}, []any{any(proofDTree(p1)), any(forged)}, ctx, nonce, issig, kss, "member-with-own-challenge", "reject")
			o["fkey"] = fkey
			ops = append(ops, o)
		}
	}
	return ops
}

func init() {
	// a list over two different secrets is verified (refused), then the second member's secret-key
	// response is overwritten with the first one's through the library's own MergeProofP, and the
	// SAME objects are verified again: nothing remembered from the first verification may make the
	// second succeed
	executors["list-reverify-after-merge"] = func(o Op) string {
		kp := execKey(o.str("key"))
		pk := kp.pk
		c1 := issueCred(kp, unhx(o["s1"]), []*big.Int{bi(11), bi(12)})
		c2 := issueCred(kp, unhx(o["s2"]), []*big.Int{bi(21), bi(22)})
		b1, err1 := c1.CreateDisclosureProofBuilder([]int{1}, nil, false)
		b2, err2 := c2.CreateDisclosureProofBuilder([]int{2}, nil, false)
		if err1 != nil || err2 != nil {
			return "builder-err"
		}
		ctx, nonce, issig := bi(1), bi(78), o.boolean("issig")
		pl, err := gabi.ProofBuilderList{b1, b2}.BuildProofList(ctx, nonce, issig)
		if err != nil {
			return "build-err"
		}
		keys := []*gabikeysPublicKey{pk, pk}
		if pl.Verify(keys, ctx, nonce, issig, nil) {
			return "accept-first"
		}
		p1, p2 := pl[0].(*gabi.ProofD), pl[1].(*gabi.ProofD)
		p2.MergeProofP(&gabi.ProofP{C: new(big.Int).Set(p2.C), SResponse: new(big.Int).Set(p1.AResponses[0])}, pk)
		for _, kss := range [][]string{nil, {"ks", "ks"}} {
			if pl.Verify(keys, ctx, nonce, issig, kss) {
				return "accept-after-merge"
			}
		}
		return "reject"
	}
}
