module gabiverif/harness

go 1.26.4

require (
	github.com/fxamacker/cbor v1.5.1
	github.com/multiformats/go-multihash v0.2.3
	github.com/privacybydesign/gabi v0.0.0
	github.com/sirupsen/logrus v1.9.4
)

require (
	github.com/bwesterb/go-exptable v1.0.0 // indirect
	github.com/go-errors/errors v1.5.1 // indirect
	github.com/klauspost/cpuid/v2 v2.3.0 // indirect
	github.com/mr-tron/base58 v1.3.0 // indirect
	github.com/multiformats/go-varint v0.1.0 // indirect
	github.com/spaolacci/murmur3 v1.1.0 // indirect
	github.com/x448/float16 v0.8.4 // indirect
	golang.org/x/crypto v0.53.0 // indirect
	golang.org/x/sys v0.46.0 // indirect
	lukechampine.com/blake3 v1.4.1 // indirect
)

replace github.com/privacybydesign/gabi => /repo
