package main

import (
	"crypto/sha256"
	"encoding/hex"
	"fmt"
	"hash"
	"strings"

	"github.com/privacybydesign/gabi/big"
	"github.com/privacybydesign/gabi/keyproof"
)

// C17, structure ops: the WIRING of the composed key-correctness proof.
//
// kp-structure       n, bases                 the real NewValidKeyProofStructure(n, bases), dumped
//                                             by keyproof/verif_export_c17b.go, in four parts (top,
//                                             pprimeIsPrime, qprimeIsPrime, basesValid), plus the
//                                             package's own numRangeProofs / numCommitments
// kp-structure-full  n, bases                 the one-piece text of VerifStructureDump
// kp-substructure    kind, constructor args   one constructor (prime, exp, issquare, step, mul, add,
//                                             ped, range) so that a difference localises
//
// Every part prints as its text when it is at most 400 bytes long, else as sha256, length and the
// first 64 bytes.
// The Lean model (GabiModel/KeyProofTree.lean) prints the same from its own constructors; the ops
// are `ref` ops: the model is the reference for the statement the tree is meant to prove (the
// theorems of GabiProps/C17Tree.lean are about it), a difference is a failing input.
//
// Why: prover and verifier share the structure value, so a slip in the wiring (the primality proof
// of q' built over "pprime", a wrong bit length, a wrong power) leaves honest proofs verifying and
// altered proofs rejected. Only a description of what each sub-proof refers to shows it.

func init() {
	executors["kp-structure"] = execKpStructure
	executors["kp-structure-full"] = execKpStructureFull
	executors["kp-substructure"] = execKpSubstructure
}

// digestWriter keeps short texts verbatim and hashes everything.
type digestWriter struct {
	h    hash.Hash
	n    int
	head []byte
}

func newDigestWriter() *digestWriter { return &digestWriter{h: sha256.New()} }

func (w *digestWriter) Write(p []byte) (int, error) {
	w.h.Write(p)
	if w.n <= 400 {
		room := 401 - len(w.head)
		if room > len(p) {
			room = len(p)
		}
		if room > 0 {
			w.head = append(w.head, p[:room]...)
		}
	}
	w.n += len(p)
	return len(p), nil
}

func (w *digestWriter) String() string {
	if w.n <= 400 {
		return string(w.head)
	}
	return fmt.Sprintf("sha256:%s len:%d head:%s", hex.EncodeToString(w.h.Sum(nil)), w.n, w.head[:64])
}

func digestOf(s string) string {
	w := newDigestWriter()
	w.Write([]byte(s))
	return w.String()
}

func intsCSV(xs []int) string {
	p := make([]string, len(xs))
	for i, x := range xs {
		p[i] = fmt.Sprint(x)
	}
	return strings.Join(p, ",")
}

func execKpStructure(o Op) string {
	n := unhx(o["n"])
	bases := unhxs(o["bases"])
	s := keyproof.NewValidKeyProofStructure(n, bases)
	out := "ok"
	for _, part := range []string{"top", "pprimeIsPrime", "qprimeIsPrime", "basesValid"} {
		w := newDigestWriter()
		if !s.VerifDumpPartTo(w, part) {
			return "err part " + part
		}
		out += fmt.Sprintf(" %s=[%s]", part, w.String())
	}
	_, nrps, total := s.VerifSubtreeCounts()
	out += fmt.Sprintf(" nrp=%d sub-nrp=%s seg=%s", total, intsCSV(nrps[:]), intsCSV(s.VerifSegmentLengths()))
	return out
}

func execKpStructureFull(o Op) string {
	return "ok " + digestOf(keyproof.VerifStructureDump(unhx(o["n"]), unhxs(o["bases"])))
}

func execKpSubstructure(o Op) string {
	counts := func(nc, nrp int) string { return fmt.Sprintf(" nc=%d nrp=%d", nc, nrp) }
	switch o.str("kind") {
	case "prime":
		all, a, neg := newDigestWriter(), newDigestWriter(), newDigestWriter()
		nc, nrp := keyproof.VerifPrimeStructureDumpTo(all, o.str("name"), uint(o.int("bitlen")))
		keyproof.VerifPrimeStructureExpsTo(a, neg, o.str("name"), uint(o.int("bitlen")))
		return fmt.Sprintf("ok all=[%s] aExp=[%s] anegExp=[%s]", all, a, neg) + counts(nc, nrp)
	case "exp":
		w := newDigestWriter()
		nc, nrp := keyproof.VerifExpStructureDumpTo(w, o.str("base"), o.str("exponent"), o.str("mod"), o.str("result"), uint(o.int("bitlen")))
		return "ok " + w.String() + counts(nc, nrp)
	case "issquare":
		w := newDigestWriter()
		nc, nrp := keyproof.VerifIsSquareStructureDumpTo(w, unhx(o["n"]), unhxs(o["squares"]))
		return "ok " + w.String() + counts(nc, nrp)
	case "step":
		s, nc, nrp := keyproof.VerifExpStepStructureDump(o.str("bitname"), o.str("prename"), o.str("postname"), o.str("mulname"), o.str("modname"), uint(o.int("bitlen")))
		return "ok " + digestOf(s) + counts(nc, nrp)
	case "mul":
		s, nc, nrp := keyproof.VerifMultiplicationStructureDump(o.str("m1"), o.str("m2"), o.str("mod"), o.str("result"), uint(o.int("l")))
		return "ok " + digestOf(s) + counts(nc, nrp)
	case "add":
		s, nc, nrp := keyproof.VerifAdditionStructureDump(o.str("a1"), o.str("a2"), o.str("mod"), o.str("result"), uint(o.int("l")))
		return "ok " + digestOf(s) + counts(nc, nrp)
	case "ped":
		s, nc, nrp := keyproof.VerifPedersenStructureDump(o.str("name"))
		return "ok " + digestOf(s) + counts(nc, nrp)
	case "range":
		s, nc, nrp := keyproof.VerifPedersenRangeStructureDump(o.str("name"), uint(o.int("l1")), uint(o.int("l2")))
		return "ok " + digestOf(s) + counts(nc, nrp)
	}
	return "err kind"
}

// ------------------------------------------------------------------------------------------
// generators
// ------------------------------------------------------------------------------------------

func kpStructureOp(class string, n *big.Int, bases []*big.Int) Op {
	return Op{"op": "kp-structure", "class": class, "label": "ok", "ref": true, "n": hx(n), "bases": hxs(bases)}
}

// treeName: an identifier as the package forms them (lower-case words, digits, joined by "_").
func treeName(g *Rng) string {
	words := []string{"p", "q", "pprime", "qprime", "x", "y", "a", "aneg", "ares", "halfp", "base", "bit", "inter",
		"start", "mod", "mul", "r", "s", "N", "primeproof", "exp", "0", "1", "17", "g", "h", "hider"}
	k := 1 + g.intn(3)
	parts := make([]string, k)
	for i := range parts {
		parts[i] = words[g.intn(len(words))]
	}
	return strings.Join(parts, "_")
}

// distinctNames: k names, pairwise different (the constructors are also exercised with equal names
// through the exp structure, whose basePowRels use one name twice).
func distinctNames(g *Rng, k int) []string {
	seen := map[string]bool{}
	var out []string
	for len(out) < k {
		s := treeName(g)
		if !seen[s] {
			seen[s] = true
			out = append(out, s)
		}
	}
	return out
}

func sub(kind, class string, args Op) Op {
	o := Op{"op": "kp-substructure", "class": "sub-" + kind + "-" + class, "label": "ok", "ref": true, "kind": kind}
	for k, v := range args {
		o[k] = v
	}
	return o
}

// modulusOfBits: a product of two random odd numbers with exactly `bits` bits (the structure
// depends on N only through its value and bit length; primality plays no role for the wiring).
func modulusOfBits(g *Rng, bits int) *big.Int {
	for {
		a := g.exactBits(bits / 2)
		b := g.exactBits(bits - bits/2)
		a.SetBit(a, 0, 1)
		b.SetBit(b, 0, 1)
		n := mulI(a, b)
		if n.BitLen() == bits {
			return n
		}
	}
}

func genC17Tree(g *Rng, thorough bool, emit func(Op)) {
	// --- the whole structure ---------------------------------------------------------------
	type plan struct {
		bits, nbases int
	}
	// toy products with even and odd bit lengths, then the sizes of real keys
	plans := []plan{{16, 0}, {17, 1}, {23, 2}, {32, 6}, {47, 3}, {48, 1}, {63, 2}, {64, 4}, {128, 3}, {255, 1}, {256, 2},
		{1024, 2}, {2048, 3}}
	for i := 0; i < 6; i++ {
		plans = append(plans, plan{16 + g.intn(49), g.intn(7)})
	}
	if thorough {
		for i := 0; i < 40; i++ {
			plans = append(plans, plan{16 + g.intn(113), g.intn(7)})
		}
		plans = append(plans, plan{511, 6}, plan{512, 0}, plan{1023, 6}, plan{2047, 1}, plan{2048, 6}, plan{4096, 2})
	}
	for _, pl := range plans {
		n := modulusOfBits(g, pl.bits)
		var bases []*big.Int
		for i := 0; i < pl.nbases; i++ {
			switch g.intn(4) {
			case 0:
				bases = append(bases, bi(int64(g.intn(5)))) // 0..4: small and degenerate bases
			default:
				bases = append(bases, g.below(n))
			}
		}
		par := "even"
		if pl.bits%2 == 1 {
			par = "odd"
		}
		size := "toy"
		if pl.bits >= 128 {
			size = fmt.Sprint(pl.bits)
		}
		cls := fmt.Sprintf("structure-%s-%s-bases-%d", size, par, pl.nbases)
		emit(kpStructureOp(cls, n, bases))
		if pl.bits <= 64 {
			emit(Op{"op": "kp-structure-full", "class": "full-" + cls, "label": "ok", "ref": true, "n": hx(n), "bases": hxs(bases)})
		}
	}
	// the moduli of the issuer keys the other properties use
	for _, id := range []string{"k1024a", "k2048"} {
		if id == "k2048" && !thorough {
			continue
		}
		kp := fixedKey(id, false)
		emit(kpStructureOp("structure-issuer-key-"+id, kp.pk.N, kp.pk.R[:3]))
	}

	// --- single constructors -----------------------------------------------------------------
	emit(sub("prime", "pprime", Op{"name": "pprime", "bitlen": 24}))
	emit(sub("prime", "qprime", Op{"name": "qprime", "bitlen": 24}))
	emit(sub("prime", "qprime-512", Op{"name": "qprime", "bitlen": 512}))
	nPrime, nExp, nSmall := 6, 8, 12
	if thorough {
		nPrime, nExp, nSmall = 40, 60, 200
	}
	for i := 0; i < nPrime; i++ {
		emit(sub("prime", "random", Op{"name": treeName(g), "bitlen": 1 + g.intn(70)}))
	}
	emit(sub("exp", "bitlen-1", Op{"base": "b", "exponent": "e", "mod": "m", "result": "r", "bitlen": 1}))
	emit(sub("exp", "bitlen-2", Op{"base": "b", "exponent": "e", "mod": "m", "result": "r", "bitlen": 2}))
	emit(sub("exp", "bitlen-3", Op{"base": "b", "exponent": "e", "mod": "m", "result": "r", "bitlen": 3}))
	for i := 0; i < nExp; i++ {
		nm := distinctNames(g, 4)
		cls := "random"
		if g.intn(4) == 0 {
			nm[3] = nm[0] // result name = base name: nothing in the constructor forbids it
			cls = "aliased"
		}
		emit(sub("exp", cls, Op{"base": nm[0], "exponent": nm[1], "mod": nm[2], "result": nm[3], "bitlen": 1 + g.intn(80)}))
	}
	for i := 0; i < nSmall; i++ {
		n := modulusOfBits(g, 16+g.intn(100))
		k := g.intn(7)
		sq := make([]*big.Int, k)
		for j := range sq {
			sq[j] = g.below(n)
		}
		emit(sub("issquare", fmt.Sprintf("squares-%d", k), Op{"n": hx(n), "squares": hxs(sq)}))
		nm := distinctNames(g, 5)
		emit(sub("step", "random", Op{"bitname": nm[0], "prename": nm[1], "postname": nm[2], "mulname": nm[3], "modname": nm[4],
			"bitlen": g.intn(2050)}))
		nm = distinctNames(g, 4)
		emit(sub("mul", "random", Op{"m1": nm[0], "m2": nm[1], "mod": nm[2], "result": nm[3], "l": g.intn(2050)}))
		emit(sub("mul", "square", Op{"m1": nm[0], "m2": nm[0], "mod": nm[2], "result": nm[3], "l": g.intn(2050)}))
		nm = distinctNames(g, 4)
		emit(sub("add", "random", Op{"a1": nm[0], "a2": nm[1], "mod": nm[2], "result": nm[3], "l": g.intn(2050)}))
		emit(sub("ped", "random", Op{"name": treeName(g)}))
		emit(sub("range", "random", Op{"name": treeName(g), "l1": g.intn(3), "l2": g.intn(2050)}))
	}
}
