package main

import (
	"bufio"
	"encoding/json"
	"fmt"
	"os"
	"os/exec"
	"strings"

	"github.com/privacybydesign/gabi/big"
	"github.com/privacybydesign/gabi/keyproof"
)

// C17, "a structure is a value": verification is a function of (structure, proof); using a
// structure must not change it, and the Exp helpers must not change the big.Ints they are handed
// (the exponents they receive are the structure's own Power values).
//
// kp-verify-reused-structure  id, other, order, [pprime, qprime]
//     ONE NewValidKeyProofStructure(n, bases) value goes through the steps of `order`
//     ("other-honest", "honest-other-honest", "build-honest", ...):
//       honest = VerifyProof(the stored honest proof)                      -> must accept
//       other  = VerifyProof(copy of it with GroupPrime := another admissible safe prime) -> reject
//       build  = BuildProof(pprime, qprime) (a fresh group prime), result discarded
//     and is dumped (keyproof/verif_export_c17b.go) before the first and after every step.
//     Output: "<verdict of the last honest step> steps=<verdicts> structure=same|changed-after-<i>".
//     Runs in a child process ("isolate": true): the failure mode includes a panic in one of
//     exp.go's worker goroutines, which cannot be recovered in-process.
// group-exp  gp, via, name, cname, secret, hider, exp
//     lookup.Exp(ret, name, exp, mod) for the BaseLookup implementations that receive
//     caller-owned integers; first word "unchanged" iff exp and mod still hold their values.

func init() {
	executors["kp-verify-reused-structure"] = execKpReused
	executors["group-exp"] = execGroupExp
}

func structureDigest(s *keyproof.ValidKeyProofStructure) string {
	w := newDigestWriter()
	s.VerifDumpTo(w)
	return w.String()
}

func safeBuild(s *keyproof.ValidKeyProofStructure, pp, qp *big.Int) (res string) {
	defer func() {
		if r := recover(); r != nil {
			res = "panic"
		}
	}()
	s.BuildProof(pp, qp)
	return "built"
}

func runReused(e *kpEntry, o Op) string {
	s := keyproof.NewValidKeyProofStructure(e.n, e.bases)
	before := structureDigest(&s)
	structure := "same"
	final := "none"
	var verdicts []string
	for i, step := range strings.Split(o.str("order"), "-") {
		var v string
		switch step {
		case "honest":
			v = safeVerify(&s, copyProof(e.proof))
			final = v
		case "other":
			p := copyProof(e.proof)
			p.GroupPrime = unhx(o["other"])
			v = safeVerify(&s, p)
		case "build":
			v = safeBuild(&s, unhx(o["pprime"]), unhx(o["qprime"]))
		default:
			return "err step " + step
		}
		verdicts = append(verdicts, v)
		if structure == "same" && structureDigest(&s) != before {
			structure = fmt.Sprintf("changed-after-%d", i)
		}
	}
	return fmt.Sprintf("%s steps=%s structure=%s", final, strings.Join(verdicts, ","), structure)
}

func execKpReused(o Op) string {
	e := kpGet(o)
	if !o.boolean("isolate") {
		return runReused(e, o)
	}
	// child process: declaration + the same op without isolation
	cmd := exec.Command(os.Args[0], "exec")
	stdin, err := cmd.StdinPipe()
	if err != nil {
		return "err pipe"
	}
	stdout, err := cmd.StdoutPipe()
	if err != nil {
		return "err pipe"
	}
	if err := cmd.Start(); err != nil {
		return "err start"
	}
	go func() {
		w := bufio.NewWriterSize(stdin, 1<<20)
		decl := Op{"op": "decl-keyproof", "id": o.str("id"), "n": hx(e.n), "bases": hxs(e.bases), "proof": json.RawMessage(e.raw)}
		w.WriteString(decl.line())
		w.WriteByte('\n')
		child := Op{}
		for k, v := range o {
			child[k] = v
		}
		child["isolate"] = false
		w.WriteString(child.line())
		w.WriteByte('\n')
		w.Flush()
		stdin.Close()
	}()
	sc := bufio.NewScanner(stdout)
	sc.Buffer(make([]byte, 1<<16), 1<<20)
	var lines []string
	for sc.Scan() {
		lines = append(lines, sc.Text())
	}
	cmd.Wait()
	if len(lines) < 2 {
		return "panic child-died"
	}
	return lines[1]
}

func execGroupExp(o Op) (res string) {
	env, ok := keyproof.VerifNewExpEnv(unhx(o["gp"]), o.str("cname"), unhx(o["secret"]), unhx(o["hider"]))
	if !ok {
		return "unchanged nogroup"
	}
	exp := unhx(o["exp"])
	mod := env.P()
	exp0, mod0 := new(big.Int).Set(exp), new(big.Int).Set(mod)
	state := func() string {
		if exp.Cmp(exp0) != 0 {
			return "changed-exp"
		}
		if mod.Cmp(mod0) != 0 {
			return "changed-mod"
		}
		return "unchanged"
	}
	defer func() {
		if r := recover(); r != nil {
			res = state() + " panic"
		}
	}()
	ret, found := env.Exp(o.str("via"), o.str("name"), exp, mod)
	if !found {
		return state() + " nobase"
	}
	return state() + " ok " + showInt(ret)
}

// ------------------------------------------------------------------------------------------
// generators
// ------------------------------------------------------------------------------------------

// otherGroupPrime: an admissible group prime for the structure that differs from (and is larger
// than) the proof's own: the first fitting entry of the package's table of convenient safe primes.
func otherGroupPrime(s *keyproof.ValidKeyProofStructure, own *big.Int) *big.Int {
	for _, p := range keyproof.VerifConvenientSafePrimes() {
		if p.BitLen() >= s.VerifGroupPrimeMinBits() && p.Cmp(own) > 0 {
			return p
		}
	}
	return nil
}

// genC17Reuse: called by genC17Whole for every really built proof.
func genC17Reuse(g *Rng, thorough bool, emit func(Op), id, cls string, key goodKey, s *keyproof.ValidKeyProofStructure, proof *keyproof.ValidKeyProof) {
	other := otherGroupPrime(s, proof.GroupPrime)
	if other == nil {
		return
	}
	type ord struct{ order, steps string }
	orders := []ord{{"other-honest", "reject,accept"}, {"honest-other-honest", "accept,reject,accept"}, {"build-honest", "built,accept"}}
	if thorough {
		orders = append(orders, ord{"other-other-honest-honest", "reject,reject,accept,accept"}, ord{"build-other-build-honest", "built,reject,built,accept"},
			ord{"honest-build-honest", "accept,built,accept"})
	}
	for _, od := range orders {
		emit(Op{"op": "kp-verify-reused-structure", "class": "reused-structure-" + od.order + "-" + cls, "label": "accept", "ref": true,
			"spec": "accept steps=" + od.steps + " structure=same", "id": id, "order": od.order, "other": hx(other),
			"pprime": hx(key.pp), "qprime": hx(key.qp), "isolate": true})
	}
}


func genC17GroupExp(g *Rng, thorough bool, emit func(Op)) {
	n := 6
	if thorough {
		n = 40
	}
	for k := 0; k < n; k++ {
		gp := smallGroupPrime(24 + g.intn(60))
		order := half(gp)
		secret, hider := g.below(order), g.below(order)
		exps := []struct {
			cls string
			e   *big.Int
		}{
			{"minus-one", bi(-1)}, {"minus-two", bi(-2)}, {"zero", bi(0)}, {"one", bi(1)},
			{"negative", new(big.Int).Neg(addI(g.below(subI(order, bi(1))), bi(1)))},
			{"positive", g.below(order)},
			{"minus-order-plus-one", new(big.Int).Neg(subI(order, bi(1)))},
			{"order-minus-one", subI(order, bi(1))},
			{"order", new(big.Int).Set(order)},
		}
		for _, via := range []string{"group", "pedcommit", "pedproof", "merge-commit", "merge-proof"} {
			for _, ex := range exps {
				names := []string{"g", "h", "x"}
				if via == "group" {
					names = []string{"g", "h"}
				}
				name := names[g.intn(len(names))]
				if ex.cls == "order" && (via == "pedproof" || (via == "merge-proof" && name == "x")) {
					continue // big.Int.Exp has no bound on the exponent: nothing to see
				}
				emit(Op{"op": "group-exp", "class": "group-exp-" + via + "-" + ex.cls, "label": "unchanged", "ref": true,
					"gp": hx(gp), "via": via, "name": name, "cname": "x", "secret": hx(secret), "hider": hx(hider), "exp": hx(ex.e)})
			}
		}
		emit(Op{"op": "group-exp", "class": "group-exp-unknown-name", "label": "unchanged", "ref": true,
			"gp": hx(gp), "via": "merge-proof", "name": "y", "cname": "x", "secret": hx(secret), "hider": hx(hider), "exp": hx(bi(-1))})
	}
}
