package main

// C20: Concurrent use is safe (and the cache-linearity part reused by C07).
//
// Ops
//   race-run     exec time. The scenario is run by a child process of the -race build of this
//                harness (GORACE log_path, varied GOMAXPROCS, 2..64 goroutines); every result
//                produced concurrently is checked by the real verifier inside the child; the
//                race detector's reports are parsed and normalised to skeleton access pairs.
//                Result: `ok` | `race <object>[<access>~<access>];…` | `invalid <what>`.
//                Model: happens-before verdict of the corresponding skeletons (`ok`).
//   cprng-reads  gen time: G goroutines read 1..200 bytes from one generator through a recording
//                block cipher (the counter blocks each Read encrypts are observed); the trace is
//                embedded in the op. exec: no counter block may occur in two reads (`shared-block`),
//                and the real generator, run sequentially in the observed order of the atomic
//                adds, must produce byte-identical outputs and the same final counter
//                (`mismatch`). Model: the trace is replayed through Conc.Cprng.
//   cache-script exec time, controlled schedule: threads of Prepare/Consume operations on one
//                credential are advanced turn by turn; the library's own log calls
//                (Logger.Trace after the receive in NonrevPrepareCache, revocation.NewProofCommit)
//                are the pause points, so every interleaving of the channel operations is
//                reachable. Result: `ok <events>` | `reused <id>`; the model runs the same
//                schedule through Conc.NonrevCache and must print the same events.
//   c20-child    internal: what the child process executes.

import (
	"bytes"
	"context"
	"crypto/aes"
	"crypto/cipher"
	"crypto/sha256"
	"encoding/binary"
	"encoding/hex"
	"encoding/json"
	"fmt"
	"io"
	"os"
	"os/exec"
	"path/filepath"
	"regexp"
	"runtime"
	"runtime/debug"
	"sort"
	"strconv"
	"strings"
	"sync"
	"sync/atomic"
	"time"

	"github.com/privacybydesign/gabi"
	"github.com/privacybydesign/gabi/big"
	"github.com/privacybydesign/gabi/gabikeys"
	"github.com/privacybydesign/gabi/keyproof"
	"github.com/privacybydesign/gabi/rangeproof"
	"github.com/privacybydesign/gabi/revocation"
	"github.com/privacybydesign/gabi/safeprime"
	"github.com/sirupsen/logrus"
)

func init() {
	generators["C20"] = genC20
	executors["race-run"] = execRaceRun
	executors["cprng-reads"] = execCprngReads
	// many goroutines hammering one generator: every keystream block (decrypted back to its
	// counter value with the known key) is handed out exactly once and none is skipped
	executors["cprng-contend"] = func(o Op) string {
		var seed [32]byte
		copy(seed[:], unhb(o["seed"]))
		c := must(gabi.VerifNewCPRNG(&seed))
		blk := must(aes.NewCipher(seed[:]))
		n, reads := o.int("goroutines"), o.int("reads")
		outs := make([][]byte, n)
		var wg sync.WaitGroup
		gate := make(chan struct{})
		for i := 0; i < n; i++ {
			wg.Add(1)
			go func(i int) {
				defer wg.Done()
				<-gate
				for r := 0; r < reads; r++ {
					buf := make([]byte, 16*(1+(i+r)%4))
					if m, err := c.Read(buf); err != nil || m != len(buf) {
						return
					}
					outs[i] = append(outs[i], buf...)
				}
			}(i)
		}
		close(gate)
		wg.Wait()
		seen := map[uint64]bool{}
		dup, total := 0, 0
		var pt [16]byte
		for _, out := range outs {
			for off := 0; off+16 <= len(out); off += 16 {
				blk.Decrypt(pt[:], out[off:off+16])
				ctr := binary.LittleEndian.Uint64(pt[:8])
				if seen[ctr] {
					dup++
				}
				seen[ctr] = true
				total++
			}
		}
		if dup > 0 {
			return fmt.Sprintf("shared-block %d of %d", dup, total)
		}
		for k := 0; k < total; k++ {
			if !seen[uint64(k)] {
				return fmt.Sprintf("skipped-block %d", k)
			}
		}
		return "ok"
	}
	executors["cache-script"] = execCacheScript
	executors["c20-child"] = execC20Child
}

// ---------------------------------------------------------------------------------------------
// generators

var c20Scenarios = []string{
	"prep-first", "prep-first-prove", "prep-repeat-prove", "prep-refresh-prove", "consume-burst", "prove-shared", "prove-range", "verify-shared", "cprng", "keygen", "keyproof",
}

// inflightRefreshOp: a session that spans a cache refresh (committed before, answered after the
// credential moved to the next accumulator and its cache was prepared again) and a proof finished
// before: both stay as valid as if nothing had happened to the credential in between. The steps
// are the interleaving; no scheduler is needed to reproduce it.
func inflightRefreshOp(g *Rng, kp *KeyPair, rounds int) Op {
	res := func() (r string) {
		defer func() {
			if e := recover(); e != nil {
				r = fmt.Sprintf("panic: %v", e)
			}
		}()
		pk := kp.pk
		keys := []*gabikeysPublicKey{pk}
		ir := newIssuerRev(g, kp)
		w := ir.witnessFor()
		cred := issueCred(kp, randSecret(g), []*big.Int{g.bits(100), w.E})
		cred.NonRevocationWitness = w
		for round := 0; round < rounds; round++ {
			ctx, nonce := g.bits(256), g.bits(80)
			if err := cred.NonrevPrepareCache(); err != nil {
				return "prepare: " + err.Error()
			}
			finished, err := cred.CreateDisclosureProof([]int{1}, nil, true, ctx, nonce)
			if err != nil {
				return "finished-proof: " + err.Error()
			}
			if ambiguous(proofDTree(finished)) {
				continue
			}
			if !(gabi.ProofList{finished}).Verify(keys, ctx, nonce, false, nil) {
				return fmt.Sprintf("round %d: fresh proof does not verify", round)
			}
			if err := cred.NonrevPrepareCache(); err != nil {
				return "prepare: " + err.Error()
			}
			b, err := cred.CreateDisclosureProofBuilder([]int{1}, nil, true)
			if err != nil {
				return "builder: " + err.Error()
			}
			c, err := gabi.ProofBuilderList{b}.Challenge(ctx, nonce, false)
			if err != nil {
				return "challenge: " + err.Error()
			}
			// meanwhile
			if err := cred.NonrevPrepareCache(); err != nil {
				return "prepare: " + err.Error()
			}
			from := ir.acc.Index + 1
			ir.revoke(revPrime(g))
			if err := cred.NonRevocationWitness.Update(pk, ir.updateFrom(from)); err != nil {
				return "witness update: " + err.Error()
			}
			if err := cred.NonrevPrepareCache(); err != nil {
				return "prepare: " + err.Error()
			}
			inflight := b.CreateProof(c).(*gabi.ProofD)
			if !ambiguous(proofDTree(inflight)) && !(gabi.ProofList{inflight}).Verify(keys, ctx, nonce, false, nil) {
				return fmt.Sprintf("round %d: the proof of the session in flight during the refresh does not verify", round)
			}
			if !(gabi.ProofList{finished}).Verify(keys, ctx, nonce, false, nil) {
				return fmt.Sprintf("round %d: a proof finished before the refresh no longer verifies", round)
			}
		}
		return "all-verify"
	}()
	return Op{"op": "recorded", "class": "session-spans-cache-refresh", "label": "all-verify", "nomodel": true, "fkey": "C20/session-spans-cache-refresh",
		"result": res, "key": kp.id, "rounds": rounds}
}

// installedWitnessCopyOp: the client keeps its witness in storage: it updates a COPY and installs
// it in the credential. A commitment prepared before must be refreshed all the same: the proof made
// afterwards is against the accumulator the credential's witness stands at.
func installedWitnessCopyOp(g *Rng, kp *KeyPair) Op {
	res := func() (r string) {
		defer func() {
			if e := recover(); e != nil {
				r = fmt.Sprintf("panic: %v", e)
			}
		}()
		pk := kp.pk
		ir := newIssuerRev(g, kp)
		w := ir.witnessFor()
		cred := issueCred(kp, randSecret(g), []*big.Int{g.bits(100), w.E})
		cred.NonRevocationWitness = w
		if err := cred.NonrevPrepareCache(); err != nil {
			return "prepare: " + err.Error()
		}
		from := ir.acc.Index + 1
		ir.revoke(revPrime(g))
		cp := *w
		cp.SignedAccumulator = &revocation.SignedAccumulator{Data: w.SignedAccumulator.Data, PKCounter: w.SignedAccumulator.PKCounter}
		if err := cp.Update(pk, ir.updateFrom(from)); err != nil {
			return "witness update: " + err.Error()
		}
		cred.NonRevocationWitness = &cp
		if err := cred.NonrevPrepareCache(); err != nil {
			return "prepare: " + err.Error()
		}
		for try := 0; try < 4; try++ {
			ctx, nonce := g.bits(256), g.bits(80)
			p, err := cred.CreateDisclosureProof([]int{1}, nil, true, ctx, nonce)
			if err != nil {
				return "prove: " + err.Error()
			}
			if ambiguous(proofDTree(p)) {
				continue
			}
			if !(gabi.ProofList{p}).Verify([]*gabikeysPublicKey{pk}, ctx, nonce, false, nil) {
				return "the proof does not verify"
			}
			acc, err := p.NonRevocationProof.SignedAccumulator.UnmarshalVerify(pk)
			if err != nil {
				return "accumulator: " + err.Error()
			}
			return fmt.Sprintf("index-%d", acc.Index)
		}
		return "index-1"
	}()
	return Op{"op": "recorded", "class": "refresh-with-installed-witness-copy", "label": "index-1", "nomodel": true, "fkey": "nonrev/installed-witness-copy",
		"result": res, "key": kp.id}
}

func genC20(g *Rng, tier string, emit func(Op)) {
	thorough := tier == "thorough"
	// (last, so that the ops below do not depend on what it draws)
	defer func() { emit(inflightRefreshOp(g, fixedKey("k1024a", true), 3)) }()
	// the safe-prime workers stopped either way (close / send), the consumer still reading: what a
	// concurrent search delivers is as valid as what a sequential one returns (never nil), and no
	// worker is left (executor shared with C16)
	nsp := 4
	if thorough {
		nsp = 24
	}
	for i := 0; i < nsp; i++ {
		emit(Op{"op": "safeprime-stop", "class": "safeprime-stop-drain", "key": "safeprime-stop", "label": "clean", "mode": "immediate", "send": i%2 == 0, "drain": true,
			"bits": 20 + g.intn(24), "recvs": 1 + g.intn(3), "workers": runtime.GOMAXPROCS(0), "wait": 4000})
	}
	// the stop by send again, with fixed sizes (what a worker does with a result it holds at the
	// moment of the stop depends on timing: many short runs)
	for i := 0; i < 16; i++ {
		emit(Op{"op": "safeprime-stop", "class": "safeprime-stop-drain-fixed", "key": "safeprime-stop", "label": "clean", "mode": "immediate", "send": true, "drain": true,
			"bits": 20 + (i*7)%24, "recvs": 1 + i%3, "workers": runtime.GOMAXPROCS(0), "wait": 4000, "rep": i})
	}
	gor := []int{2, 8, 64}
	procs := []int{4, 16, 1}

	// 1. race-run: every scenario with every goroutine count and every GOMAXPROCS.
	// GOMAXPROCS=1 comes last for each scenario: with a single P the detector misses most
	// races between goroutines that run one after the other (measured: 10-30 % detection of the
	// nonrevCache race against 100 % with >= 2 Ps), so the first op of a scenario - the one the
	// driver turns into the replay of its key - is a reliable one.
	reps := 1
	if thorough {
		reps = 3
		emit(Op{"op": "race-run", "class": "race/keyproof-full", "label": "ok", "key": "race/keyproof-full",
			"scenario": "keyproof-full", "goroutines": 2, "gomaxprocs": 4, "iters": 1, "seed": 1})
	}
	for r := 0; r < reps; r++ {
		for _, sc := range c20Scenarios {
			for _, p := range []int{4, 16, 1} {
				for _, n := range gor {
					if !thorough && sc == "keygen" && (n != 2 || p == 1) {
						continue // expensive scenario: twice in the quick tier
					}
					if thorough && r > 0 && g.intn(3) == 0 {
						n = 2 + g.intn(63)
					}
					emit(Op{"op": "race-run", "class": "race/" + sc, "label": "ok", "key": "race/" + sc,
						"scenario": sc, "goroutines": n, "gomaxprocs": p, "iters": 1 + g.intn(2), "seed": int(g.u64() >> 12)})
				}
			}
		}
	}

	for _, n := range []int{4, 16, 64} {
		reads := 20000
		if thorough {
			reads = 200000
		}
		emit(Op{"op": "cprng-contend", "class": fmt.Sprintf("cprng-contend/g%d", n), "key": "cprng-trace", "label": "ok", "nomodel": true,
			"seed": hb(g.bytes(32)), "goroutines": n, "reads": reads / n * 4})
	}
	// 2. cprng-reads: traces observed now (true parallelism), embedded.
	nTraces := 9
	if thorough {
		nTraces = 300
	}
	for i := 0; i < nTraces; i++ {
		n := gor[i%3]
		p := procs[(i/3)%3]
		if thorough && g.intn(3) == 0 {
			n = 2 + g.intn(63)
		}
		perG := 1 + g.intn(6)
		if n <= 8 {
			perG = 4 + g.intn(30)
		}
		lens := make([][]int, n)
		for a := range lens {
			lens[a] = make([]int, perG)
			for b := range lens[a] {
				switch g.intn(8) {
				case 0:
					lens[a][b] = 16 * (1 + g.intn(12)) // exact multiples of the block size
				case 1:
					lens[a][b] = 1 + g.intn(16)
				case 2:
					lens[a][b] = 0
				default:
					lens[a][b] = 1 + g.intn(200)
				}
			}
		}
		seed := g.bytes(32)
		child := Op{"op": "c20-child", "scenario": "cprng-trace", "seed": hb(seed), "lens": lens}
		res, _, err := c20RunChild(child, p, 120*time.Second)
		if err != nil || !strings.HasPrefix(res, "ok ") {
			panic(fmt.Sprintf("cprng trace child failed: %v %q", err, res))
		}
		var observed any
		if err := json.Unmarshal([]byte(res[3:]), &observed); err != nil {
			panic(err)
		}
		emit(Op{"op": "cprng-reads", "class": fmt.Sprintf("cprng/g%d", bucket(n)), "label": "ok", "key": "cprng-trace",
			"seed": hb(seed), "goroutines": n, "gomaxprocs": p, "observed": observed})
	}

	// 3. cache-script: controlled schedules.
	// fixed corpus: the interleavings discussed in the design
	fixed := []struct {
		th [][]string
		s  []int
	}{
		{[][]string{{"prepare"}, {"prepare"}}, []int{0, 1, 0, 1}},                                // two first-time preparations, receives first
		{[][]string{{"prepare"}, {"prepare"}}, []int{0, 1, 1, 0}},                                // second finishes first: first discards
		{[][]string{{"prepare"}, {"consume"}}, []int{1, 0, 0, 1}},                                // consumer saw nil channel, builds its own
		{[][]string{{"prepare", "prepare"}, {"consume", "consume"}}, []int{0, 0, 0, 1, 0, 1, 1}}, // update path with a consumer stealing
		{[][]string{{"prepare"}, {"consume"}, {"consume"}}, []int{0, 0, 1, 2, 2, 1}},
		{[][]string{{"consume"}, {"consume"}}, []int{0, 1, 0, 1}},
	}
	for _, f := range fixed {
		emit(cacheScriptOp(f.th, f.s, "fixed"))
	}
	nScripts := 40
	if thorough {
		nScripts = 1000
	}
	for i := 0; i < nScripts; i++ {
		nt := 1 + g.intn(4)
		if thorough && g.intn(10) == 0 {
			nt = 5 + g.intn(4)
		}
		maxOps := 3
		if thorough {
			maxOps = 6
		}
		th := make([][]string, nt)
		total := 0
		for a := range th {
			k := 1 + g.intn(maxOps)
			for b := 0; b < k; b++ {
				if g.intn(5) < 2 {
					th[a] = append(th[a], "prepare")
				} else {
					th[a] = append(th[a], "consume")
				}
			}
			total += k
		}
		// every op needs at most 2 turns; add some slack so that idle turns are exercised too
		sl := 2*total + g.intn(4)
		if g.intn(6) == 0 {
			sl = g.intn(2*total + 1) // truncated schedules: operations still in flight at the end
		}
		s := make([]int, sl)
		for a := range s {
			s[a] = g.intn(nt)
		}
		emit(cacheScriptOp(th, s, fmt.Sprintf("random/t%d", nt)))
	}
}

func bucket(n int) int {
	switch {
	case n <= 2:
		return 2
	case n <= 8:
		return 8
	default:
		return 64
	}
}

func cacheScriptOp(th [][]string, s []int, class string) Op {
	return Op{"op": "cache-script", "class": "cache/" + class, "label": "ok", "key": "cache-script",
		"threads": th, "schedule": s}
}

// ---------------------------------------------------------------------------------------------
// child processes under the race detector

func c20IsRaceBuild() bool {
	bi, ok := debug.ReadBuildInfo()
	if !ok {
		return false
	}
	for _, s := range bi.Settings {
		if s.Key == "-race" && s.Value == "true" {
			return true
		}
	}
	return false
}

var c20SiblingOnce sync.Once

// c20RaceBinary: this executable if it was built with -race. Otherwise (the driver's --replay
// builds the plain harness only) the sibling `harness-race`, rebuilt once per process from the
// harness sources next to the binary so that it reflects the current tree of the library.
func c20RaceBinary() (string, error) {
	exe, err := os.Executable()
	if err != nil {
		return "", err
	}
	if c20IsRaceBuild() {
		return exe, nil
	}
	sib := filepath.Join(filepath.Dir(exe), "harness-race")
	c20SiblingOnce.Do(func() {
		src := filepath.Join(filepath.Dir(exe), "..", "..", "go", "harness")
		if st, err := os.Stat(filepath.Join(src, "c20.go")); err == nil && !st.IsDir() {
			cmd := exec.Command("go", "build", "-race", "-tags", "verif", "-o", sib, ".")
			cmd.Dir = src
			cmd.Env = append(os.Environ(), "GOFLAGS=-mod=mod", "GOPROXY=off")
			if out, err := cmd.CombinedOutput(); err != nil {
				fmt.Fprintf(os.Stderr, "c20: rebuilding %s failed: %v\n%s\n", sib, err, tail(string(out), 600))
			}
		}
	})
	if _, err := os.Stat(sib); err == nil {
		return sib, nil
	}
	return "", fmt.Errorf("no -race build of the harness available")
}

// c20RunChild runs one c20-child op in a fresh process and returns its result line and the
// normalised race reports.
func c20RunChild(child Op, gomaxprocs int, timeout time.Duration) (string, []string, error) {
	exe, err := c20RaceBinary()
	if err != nil {
		return "", nil, err
	}
	dir, err := os.MkdirTemp("", "c20race")
	if err != nil {
		return "", nil, err
	}
	defer os.RemoveAll(dir)
	ctx, cancel := context.WithTimeout(context.Background(), timeout)
	defer cancel()
	cmd := exec.CommandContext(ctx, exe, "exec")
	env := []string{}
	for _, e := range os.Environ() {
		if strings.HasPrefix(e, "GORACE=") || strings.HasPrefix(e, "GOMAXPROCS=") {
			continue
		}
		env = append(env, e)
	}
	env = append(env, "GORACE=halt_on_error=0 exitcode=0 atexit_sleep_ms=0 log_path="+filepath.Join(dir, "race"),
		"GOMAXPROCS="+strconv.Itoa(gomaxprocs))
	cmd.Env = env
	cmd.Stdin = strings.NewReader(child.line() + "\n")
	var stderr bytes.Buffer
	cmd.Stderr = &stderr
	out, err := cmd.Output()
	if err != nil {
		return "", nil, fmt.Errorf("child: %v: %s", err, tail(stderr.String(), 400))
	}
	res := strings.TrimSpace(string(out))
	if i := strings.IndexByte(res, '\n'); i >= 0 {
		res = res[:i]
	}
	var races []string
	files, _ := filepath.Glob(filepath.Join(dir, "race*"))
	for _, f := range files {
		b, err := os.ReadFile(f)
		if err == nil {
			races = append(races, parseRaceReports(string(b))...)
		}
	}
	return res, uniqSorted(races), nil
}

func tail(s string, n int) string {
	if len(s) > n {
		return s[len(s)-n:]
	}
	return s
}

func uniqSorted(xs []string) []string {
	sort.Strings(xs)
	out := xs[:0]
	for i, x := range xs {
		if i == 0 || x != xs[i-1] {
			out = append(out, x)
		}
	}
	return out
}

// skeleton objects by accessing function: a race report whose library frame is not listed here
// is an access the skeletons do not know about.
var c20Objects = []struct{ fn, object string }{
	{"(*Credential).NonrevPrepareCache", "nonrevCache"},
	{"(*Credential).nonrevConsumeBuilder", "nonrevCache"},
	{"(*Credential).nonrevCacheChan", "nonrevCache"},
	{"(*SignedAccumulator).UnmarshalVerify", "SignedAccumulator.Accumulator"},
	{"revocation.NewProofCommit", "Witness.randomizer"},
	{"revocation.(*witness)", "Witness.randomizer"},
	{"(*CPRNG).Read", "CPRNG.counter"},
	{"keyproof.(*expProofStructure)", "exp.list"},
	{"(*NonRevocationProofBuilder)", "builder"},
}

var raceAccessRe = regexp.MustCompile(`^(Read|Write|Previous read|Previous write|Atomic read|Atomic write|Previous atomic read|Previous atomic write) at 0x[0-9a-f]+ by `)

// parseRaceReports turns the race detector's text into normalised access pairs
// `<object>[<kind>@<function>(<file>:<line>)~…]`.
func parseRaceReports(txt string) []string {
	var res []string
	blocks := strings.Split(txt, "WARNING: DATA RACE")
	for _, b := range blocks[1:] {
		lines := strings.Split(b, "\n")
		var accs []string
		object := ""
		for i := 0; i < len(lines); i++ {
			m := raceAccessRe.FindStringSubmatch(strings.TrimSpace(lines[i]))
			if m == nil {
				continue
			}
			kind := strings.ToLower(strings.TrimPrefix(strings.ToLower(m[1]), "previous "))
			kind = strings.ReplaceAll(kind, " ", "-")
			// frames: function line, then file line, until an empty line
			fn, loc := "", ""
			topFn, topLoc := "", ""
			for j := i + 1; j+1 < len(lines) && strings.TrimSpace(lines[j]) != ""; j += 2 {
				f := strings.TrimSpace(lines[j])
				l := strings.TrimSpace(lines[j+1])
				if topFn == "" {
					topFn, topLoc = f, l
				}
				if strings.HasPrefix(f, "github.com/privacybydesign/gabi") {
					fn, loc = f, l
					break
				}
			}
			if fn == "" {
				fn, loc = topFn, topLoc
			}
			fn = strings.TrimPrefix(fn, "github.com/privacybydesign/gabi/")
			fn = strings.TrimPrefix(fn, "github.com/privacybydesign/")
			if k := strings.Index(fn, "()"); k >= 0 {
				fn = fn[:k]
			}
			if k := strings.Index(loc, " +0x"); k >= 0 {
				loc = loc[:k]
			}
			loc = filepath.Base(loc)
			for _, o := range c20Objects {
				if strings.Contains(fn, o.fn) && object == "" {
					object = o.object
				}
			}
			accs = append(accs, fmt.Sprintf("%s@%s(%s)", kind, fn, loc))
			if len(accs) == 2 {
				break
			}
		}
		if len(accs) == 0 {
			continue
		}
		sort.Strings(accs)
		if object == "" {
			object = "unlisted"
		}
		res = append(res, object+"["+strings.Join(accs, "~")+"]")
	}
	return res
}

// scenarios whose child did not finish in time in this process: later ops of the same scenario
// are answered at once (a mutant that makes a scenario hang would otherwise cost one timeout per op).
var c20TimedOut = map[string]bool{}

func execRaceRun(o Op) string {
	child := Op{"op": "c20-child"}
	for k, v := range o {
		if k != "op" && k != "label" && k != "class" && k != "key" && k != "seq" {
			child[k] = v
		}
	}
	sc := o.str("scenario")
	if c20TimedOut[sc] {
		return "err timeout (scenario " + sc + " did not finish before; skipped)"
	}
	timeout := 90 * time.Second
	if sc == "keyproof-full" {
		timeout = 900 * time.Second
	}
	start := time.Now()
	res, races, err := c20RunChild(child, o.int("gomaxprocs"), timeout)
	if err != nil {
		if time.Since(start) >= timeout {
			c20TimedOut[sc] = true
			return fmt.Sprintf("err timeout: scenario %s did not finish within %v", sc, timeout)
		}
		return "err " + strings.ReplaceAll(err.Error(), "\n", " ")
	}
	if len(races) > 0 {
		return "race " + strings.Join(races, ";")
	}
	return res
}

// ---------------------------------------------------------------------------------------------
// the scenarios (run inside the child)

type c20Env struct {
	kp      *KeyPair
	context *big.Int
	nonce   *big.Int
}

func c20NewEnv() *c20Env {
	kp := fixedKey("k1024a", true)
	return &c20Env{kp: kp, context: bi(0x5eed), nonce: bi(0x0123456789)}
}

// c20Credential: a credential with a fresh non-revocation witness (gabi_test.go: setupRevocation,
// TestNotRevoked). The cache is NOT prepared.
func c20Credential(env *c20Env) *gabi.Credential {
	sk, pk := env.kp.sk, env.kp.pk
	update := must(revocation.NewAccumulator(sk))
	acc := must(update.SignedAccumulator.UnmarshalVerify(pk))
	w := must(revocation.RandomWitness(sk, acc))
	w.SignedAccumulator = update.SignedAccumulator
	attrs := []*big.Int{bi(1001), bi(1002), bi(1003), w.E}
	sig := must(gabi.SignMessageBlock(sk, pk, attrs))
	return &gabi.Credential{Signature: sig, Pk: pk, Attributes: attrs, NonRevocationWitness: w}
}

func (env *c20Env) prove(cred *gabi.Credential, nonrev bool) (*gabi.ProofD, error) {
	return cred.CreateDisclosureProof([]int{1, 2}, nil, nonrev, env.context, env.nonce)
}

func (env *c20Env) verify(p *gabi.ProofD, wantNonrev bool) string {
	if p == nil {
		return "nil-proof"
	}
	if wantNonrev != (p.NonRevocationProof != nil) {
		return "nonrev-part"
	}
	if !(gabi.ProofList{p}).Verify([]*gabikeys.PublicKey{env.kp.pk}, env.context, env.nonce, false, nil) {
		if p.NonRevocationProof != nil && c20AmbiguousRevocationIndex(p) {
			// Known completeness gap that has nothing to do with concurrency (design, C11): the
			// verifier locates the revocation attribute as "the hidden response below 2^580";
			// about once in 2^12 honest proofs a second hidden response (e.g. the secret key's,
			// whose randomizer has 592 bits) is that small too and the wrong one may be picked.
			// A sequentially produced proof fails in exactly the same way, so this is not counted.
			return ""
		}
		return "proof-rejected"
	}
	return ""
}

// c20AmbiguousRevocationIndex: more than one hidden response qualifies as "the" revocation
// attribute response for ProofD.revocationAttrIndex (proofs.go:355-364).
func c20AmbiguousRevocationIndex(p *gabi.ProofD) bool {
	params := revocation.Parameters
	max := new(big.Int).Lsh(bi(1), params.AttributeSize+params.ChallengeLength+params.ZkStat+1)
	n := 0
	for _, r := range p.AResponses {
		if r.Cmp(max) < 0 {
			n++
		}
	}
	return n != 1
}

type c20Errs struct {
	mu   sync.Mutex
	errs []string
}

func (e *c20Errs) add(s string) {
	if s == "" {
		return
	}
	e.mu.Lock()
	e.errs = append(e.errs, s)
	e.mu.Unlock()
}

func (e *c20Errs) result() string {
	if len(e.errs) == 0 {
		return "ok"
	}
	return "invalid " + strings.ReplaceAll(strings.Join(uniqSorted(e.errs), ","), " ", "_")
}

// parallel starts n goroutines behind a common gate and waits for them.
func parallel(n int, f func(i int)) {
	if os.Getenv("C20_SEQUENTIAL") != "" { // debugging aid: the same work without concurrency
		for i := 0; i < n; i++ {
			f(i)
		}
		return
	}
	var wg sync.WaitGroup
	gate := make(chan struct{})
	wg.Add(n)
	for i := 0; i < n; i++ {
		go func(i int) {
			defer wg.Done()
			<-gate
			f(i)
		}(i)
	}
	close(gate)
	wg.Wait()
}

func execC20Child(o Op) string {
	sc := o.str("scenario")
	n := o.int("goroutines")
	iters := o.int("iters")
	if iters < 1 {
		iters = 1
	}
	errs := &c20Errs{}
	guard := func(f func()) {
		defer func() {
			if r := recover(); r != nil {
				errs.add(fmt.Sprintf("panic:%v", r))
			}
		}()
		f()
	}
	switch sc {
	case "cprng-trace":
		return c20CprngTrace(o)

	case "prep-first":
		// first-time preparation by everybody at once (plus the sequential look afterwards)
		env := c20NewEnv()
		for it := 0; it < iters; it++ {
			cred := c20Credential(env)
			parallel(n, func(i int) {
				guard(func() {
					if err := cred.NonrevPrepareCache(); err != nil {
						errs.add("prepare:" + err.Error())
					}
				})
			})
			p, err := env.prove(cred, true)
			if err != nil {
				errs.add("prove:" + err.Error())
			} else {
				errs.add(env.verify(p, true))
			}
		}

	case "prep-first-prove", "prep-repeat-prove", "prove-shared":
		env := c20NewEnv()
		for it := 0; it < iters; it++ {
			cred := c20Credential(env)
			if sc == "prep-repeat-prove" {
				if err := cred.NonrevPrepareCache(); err != nil {
					errs.add("prepare:" + err.Error())
				}
			}
			parallel(n, func(i int) {
				guard(func() {
					role := i % 3
					if sc == "prep-first-prove" {
						role = i % 2
					}
					if sc == "prove-shared" {
						role = 1 + i%2
					}
					switch role {
					case 0:
						if err := cred.NonrevPrepareCache(); err != nil {
							errs.add("prepare:" + err.Error())
						}
					case 1:
						p, err := env.prove(cred, true)
						if err != nil {
							errs.add("prove:" + err.Error())
							return
						}
						errs.add(env.verify(p, true))
					case 2:
						p, err := env.prove(cred, false)
						if err != nil {
							errs.add("prove:" + err.Error())
							return
						}
						errs.add(env.verify(p, false))
					}
				})
			})
		}

	case "prep-refresh-prove":
		// the cache is prepared, the credential moves to the next accumulator, and then the cache is
		// prepared AGAIN (which refreshes the commitment it holds) while provers use the credential:
		// every proof verifies, no prepared commitment serves two proofs
		env := c20NewEnv()
		sk, pk := env.kp.sk, env.kp.pk
		for it := 0; it < iters+2; it++ {
			update := must(revocation.NewAccumulator(sk))
			acc := must(update.SignedAccumulator.UnmarshalVerify(pk))
			w := must(revocation.RandomWitness(sk, acc))
			w.SignedAccumulator = update.SignedAccumulator
			attrs := []*big.Int{bi(1001), bi(1002), bi(1003), w.E}
			cred := &gabi.Credential{Signature: must(gabi.SignMessageBlock(sk, pk, attrs)), Pk: pk, Attributes: attrs, NonRevocationWitness: w}
			if err := cred.NonrevPrepareCache(); err != nil {
				errs.add("prepare:" + err.Error())
			}
			other := must(revocation.RandomWitness(sk, acc))
			newAcc, ev, err := acc.Remove(sk, other.E, update.Events[len(update.Events)-1])
			if err != nil {
				errs.add("remove:" + err.Error())
				continue
			}
			if err := cred.NonRevocationWitness.Update(pk, must(revocation.NewUpdate(sk, newAcc, []*revocation.Event{ev}))); err != nil {
				errs.add("witness-update:" + err.Error())
				continue
			}
			var mu sync.Mutex
			seen := map[string]int{}
			note := func(p *gabi.ProofD) {
				if p != nil && p.NonRevocationProof != nil && p.NonRevocationProof.Cr != nil {
					mu.Lock()
					seen[p.NonRevocationProof.Cr.String()]++
					mu.Unlock()
				}
			}
			parallel(n, func(i int) {
				guard(func() {
					if i == 0 {
						if err := cred.NonrevPrepareCache(); err != nil {
							errs.add("prepare:" + err.Error())
						}
						return
					}
					p, err := env.prove(cred, true)
					if err != nil {
						errs.add("prove:" + err.Error())
						return
					}
					note(p)
					errs.add(env.verify(p, true))
				})
			})
			for k := 0; k < 2; k++ {
				if p, err := env.prove(cred, true); err == nil {
					note(p)
					errs.add(env.verify(p, true))
				}
			}
			for _, c := range seen {
				if c > 1 {
					errs.add("a-prepared-nonrevocation-commitment-served-two-proofs")
				}
			}
		}

	case "consume-burst":
		// one prepared commitment, several provers reaching for it at the very same moment (they
		// leave a spinning barrier together): one gets it, the others build their own - nobody waits
		env := c20NewEnv()
		cred := c20Credential(env)
		rounds := 40 * iters
	burst:
		for r := 0; r < rounds; r++ {
			if err := cred.NonrevPrepareCache(); err != nil {
				errs.add("prepare:" + err.Error())
				break
			}
			k := n
			if k > 8 {
				k = 8
			}
			var ready int32
			done := make(chan string, k)
			for i := 0; i < k; i++ {
				go func() {
					defer func() {
						if e := recover(); e != nil {
							done <- fmt.Sprintf("panic:%v", e)
						}
					}()
					atomic.AddInt32(&ready, 1)
					for atomic.LoadInt32(&ready) < int32(k) {
						runtime.Gosched()
					}
					b, err := cred.VerifNonrevConsumeBuilder()
					if err != nil || b == nil {
						done <- fmt.Sprintf("consume:%v", err)
						return
					}
					done <- ""
				}()
			}
			for i := 0; i < k; i++ {
				select {
				case msg := <-done:
					errs.add(msg)
				case <-time.After(8 * time.Second):
					errs.add("a-prover-never-got-a-commitment-(blocked-on-the-cache)")
					break burst
				}
			}
		}

	case "prove-range":
		// provers that share a credential and each prove an inequality about a hidden attribute
		// (four squares, another slack each), every proof verified
		env := c20NewEnv()
		for it := 0; it < iters; it++ {
			cred := c20Credential(env)
			parallel(n, func(i int) {
				guard(func() {
					st, err := rangeproof.NewStatement(rangeproof.GreaterOrEqual, bi(int64(1000-37*i-it)))
					if err != nil {
						errs.add("statement:" + err.Error())
						return
					}
					p, err := cred.CreateDisclosureProof([]int{2}, map[int][]*rangeproof.Statement{1: {st}}, false, env.context, env.nonce)
					if err != nil {
						errs.add("prove:" + err.Error())
						return
					}
					if !p.Verify(env.kp.pk, env.context, env.nonce, false) || len(p.RangeProofs[1]) != 1 || !p.RangeProofs[1][0].Proves(st) {
						errs.add("range proof does not verify")
					}
				})
			})
		}

	case "verify-shared":
		// one public key shared by provers (own credentials) and verifiers (own decoded proofs)
		env := c20NewEnv()
		creds := []*gabi.Credential{c20Credential(env), c20Credential(env)}
		for _, c := range creds {
			if err := c.NonrevPrepareCache(); err != nil {
				errs.add("prepare:" + err.Error())
			}
		}
		var encoded [][]byte
		for i := 0; i < 4; i++ {
			p, err := env.prove(creds[i%2], i%2 == 0)
			if err != nil {
				errs.add("prove:" + err.Error())
				continue
			}
			encoded = append(encoded, must(json.Marshal(p)))
		}
		parallel(n, func(i int) {
			guard(func() {
				for it := 0; it < iters; it++ {
					if i%4 == 3 {
						c := c20Credential(env) // provers with their own credential, same key
						p, err := env.prove(c, true)
						if err != nil {
							errs.add("prove:" + err.Error())
							continue
						}
						errs.add(env.verify(p, true))
						continue
					}
					k := (i + it) % len(encoded)
					p := new(gabi.ProofD)
					if err := json.Unmarshal(encoded[k], p); err != nil {
						errs.add("decode:" + err.Error())
						continue
					}
					errs.add(env.verify(p, k%2 == 0))
				}
			})
		})

	case "cprng":
		var seed [32]byte
		binary.LittleEndian.PutUint64(seed[:], uint64(o.int("seed")))
		c := must(gabi.VerifNewCPRNG(&seed))
		limit := new(big.Int).Lsh(bi(1), 256)
		nmod := fixedKey("k1024a", false).pk.N
		outs := make([][]byte, n)
		parallel(n, func(i int) {
			guard(func() {
				h := sha256.New()
				for k := 0; k < 20*iters; k++ {
					buf := make([]byte, 1+(i*37+k*11)%200)
					if m, err := c.Read(buf); err != nil || m != len(buf) {
						errs.add("short-read")
					}
					h.Write(buf)
					v := gabi.VerifFastRandomBigInt(limit)
					if v.Sign() < 0 || v.Cmp(limit) >= 0 {
						errs.add("fastrandom-range")
					}
					if k%8 == 0 {
						q := gabi.VerifRandomQR(nmod)
						if q.Sign() < 0 || q.Cmp(nmod) >= 0 {
							errs.add("randomqr-range")
						}
					}
				}
				outs[i] = h.Sum(nil)
			})
		})
		for i := range outs {
			for j := i + 1; j < len(outs); j++ {
				if bytes.Equal(outs[i], outs[j]) {
					errs.add("identical-streams")
				}
			}
		}

	case "keygen":
		if n > 8 {
			n = 8
		}
		parallel(n, func(i int) {
			guard(func() {
				sk, pk, err := gabikeys.GenerateKeyPair(gabikeys.DefaultSystemParameters[256], 3, 0, time.Unix(2000000000, 0))
				if err != nil {
					errs.add("keygen:" + err.Error())
					return
				}
				errs.add(c20CheckKey(sk, pk))
			})
		})
		// and the primitive below it, with its stop/stopped channels
		stop := make(chan struct{})
		ints, errc := safeprime.GenerateConcurrent(64, stop)
		for k := 0; k < 3; k++ {
			select {
			case x := <-ints:
				if !safeprime.ProbablySafePrime(x, 20) || x.BitLen() != 64 {
					errs.add("not-a-safe-prime")
				}
			case err := <-errc:
				errs.add("safeprime:" + err.Error())
			}
		}
		close(stop)

	case "keyproof":
		// the exponentiation proof with its two worker pools (exp.go), many at once
		if n > 16 {
			n = 16
		}
		gp := must(safeprime.Generate(40+o.int("seed")%24, nil))
		// a^b = r (mod m) with a four bit exponent, as in keyproof.TestExpProofFlow. Only
		// statements whose proof round-trips SEQUENTIALLY are used: the property compares a
		// concurrent run with a sequential one (some representatives r do not round-trip even
		// sequentially; that is not a concurrency matter).
		type stmt struct{ a, b, m, r *big.Int }
		var stmts []stmt
		for k := 0; k < 12 && len(stmts) < 6; k++ {
			a, b, m := int64(2+k%7), int64(1+(3*k)%15), int64(11+2*(k%5))
			r := new(big.Int).Exp(bi(a), bi(b), bi(m))
			st := stmt{bi(a), bi(b), bi(m), r}
			if premise, structure, same, l := keyproof.VerifC20ExpProofFlow(gp, st.a, st.b, st.m, st.r, 4, bi(12345)); premise && structure && same && l > 0 {
				stmts = append(stmts, st)
			}
		}
		stmts = append(stmts, stmt{bi(2), bi(5), bi(11), bi(-1)}) // the test-suite's statement
		parallel(n, func(i int) {
			guard(func() {
				for it := 0; it < iters; it++ {
					st := stmts[(i+it)%len(stmts)]
					premise, structure, same, l := keyproof.VerifC20ExpProofFlow(gp, st.a, st.b, st.m, st.r, 4, bi(12345+int64(i)))
					if !premise || !structure || !same || l == 0 {
						errs.add(fmt.Sprintf("expproof:%v/%v/%v/%d", premise, structure, same, l))
					}
				}
			})
		})

	case "keyproof-full":
		// complete key proofs at toy size (expensive under the race detector)
		if n > 2 {
			n = 2
		}
		var P, Q *big.Int
		for {
			P = must(safeprime.Generate(48, nil))
			Q = must(safeprime.Generate(48, nil))
			if keyproof.CanProve(new(big.Int).Rsh(P, 1), new(big.Int).Rsh(Q, 1)) {
				break
			}
		}
		N := new(big.Int).Mul(P, Q)
		parallel(n, func(i int) {
			guard(func() {
				s := keyproof.NewValidKeyProofStructure(N, []*big.Int{bi(36), bi(49), bi(64)})
				proof := s.BuildProof(new(big.Int).Rsh(P, 1), new(big.Int).Rsh(Q, 1))
				if !s.VerifyProof(proof) {
					errs.add("keyproof-rejected")
				}
			})
		})

	default:
		return "bad-op scenario " + sc
	}
	return errs.result()
}

// c20CheckKey: a concurrently generated key pair is as valid as a sequentially generated one.
func c20CheckKey(sk *gabikeys.PrivateKey, pk *gabikeys.PublicKey) string {
	one := bi(1)
	if !safeprime.ProbablySafePrime(sk.P, 20) || !safeprime.ProbablySafePrime(sk.Q, 20) {
		return "key:not-safe-primes"
	}
	if new(big.Int).Mul(sk.P, sk.Q).Cmp(pk.N) != 0 || sk.P.Cmp(sk.Q) == 0 {
		return "key:modulus"
	}
	if new(big.Int).Add(new(big.Int).Lsh(sk.PPrime, 1), one).Cmp(sk.P) != 0 ||
		new(big.Int).Add(new(big.Int).Lsh(sk.QPrime, 1), one).Cmp(sk.Q) != 0 {
		return "key:primes"
	}
	order := new(big.Int).Mul(sk.PPrime, sk.QPrime)
	// S, Z, R_i are quadratic residues: their order divides p'q'
	for _, x := range append([]*big.Int{pk.S, pk.Z}, pk.R...) {
		if x.Sign() <= 0 || x.Cmp(pk.N) >= 0 || new(big.Int).Exp(x, order, pk.N).Cmp(one) != 0 {
			return "key:not-qr"
		}
	}
	attrs := []*big.Int{bi(5), bi(6), bi(7)}
	sig, err := gabi.SignMessageBlock(sk, pk, attrs)
	if err != nil || !sig.Verify(pk, attrs) {
		return "key:signature"
	}
	return ""
}

// ---------------------------------------------------------------------------------------------
// cprng-reads

// recBlock records, per goroutine, the counter blocks that CPRNG.Read encrypts.
type recBlock struct {
	inner cipher.Block
	by    map[uint64]*gRec // read-only while the reads run
}
type gRec struct{ cur []uint64 }

func (r *recBlock) BlockSize() int          { return r.inner.BlockSize() }
func (r *recBlock) Decrypt(dst, src []byte) { r.inner.Decrypt(dst, src) }
func (r *recBlock) Encrypt(dst, src []byte) {
	rec := r.by[goid()]
	rec.cur = append(rec.cur, binary.LittleEndian.Uint64(src[:8]))
	r.inner.Encrypt(dst, src)
}

func goid() uint64 {
	var buf [64]byte
	n := runtime.Stack(buf[:], false)
	// "goroutine 123 [running]:"
	f := strings.Fields(string(buf[:n]))
	id, _ := strconv.ParseUint(f[1], 10, 64)
	return id
}

type cprngRead struct {
	G      int      `json:"g"`
	Len    int      `json:"len"`
	Blocks []uint64 `json:"blocks"`
	Out    string   `json:"out"`
}

func c20CprngTrace(o Op) string {
	seed := unhb(o["seed"])
	var lens [][]int
	b, _ := json.Marshal(o["lens"])
	if err := json.Unmarshal(b, &lens); err != nil {
		return "bad-op lens"
	}
	inner := must(aes.NewCipher(seed))
	rb := &recBlock{inner: inner, by: map[uint64]*gRec{}}
	c := gabi.VerifC20NewCPRNGWithBlock(rb)
	n := len(lens)
	results := make([][]cprngRead, n)
	var reg sync.WaitGroup
	var mu sync.Mutex
	var done sync.WaitGroup
	gate := make(chan struct{})
	reg.Add(n)
	done.Add(n)
	for i := 0; i < n; i++ {
		go func(i int) {
			defer done.Done()
			rec := &gRec{}
			mu.Lock()
			rb.by[goid()] = rec
			mu.Unlock()
			reg.Done()
			<-gate
			for _, l := range lens[i] {
				rec.cur = nil
				buf := make([]byte, l)
				m, err := c.Read(buf)
				if err != nil || m != l {
					buf = nil
				}
				results[i] = append(results[i], cprngRead{G: i, Len: l, Blocks: append([]uint64{}, rec.cur...), Out: hex.EncodeToString(buf)})
			}
		}(i)
	}
	reg.Wait()
	close(gate)
	done.Wait()
	var all []cprngRead
	for _, r := range results {
		all = append(all, r...)
	}
	out := must(json.Marshal(map[string]any{"reads": all, "final": c.VerifCounter()}))
	return "ok " + string(out)
}

func execCprngReads(o Op) string {
	obs, ok := o["observed"].(map[string]any)
	if !ok {
		return "bad-op observed"
	}
	var reads []cprngRead
	b, _ := json.Marshal(obs["reads"])
	if err := json.Unmarshal(b, &reads); err != nil {
		return "bad-op reads"
	}
	final := uint64(Op(obs).int("final"))
	var seed [32]byte
	copy(seed[:], unhb(o["seed"]))
	c := must(gabi.VerifNewCPRNG(&seed))
	// order of the atomic adds = order of the returned ivs
	var nz []cprngRead
	for _, r := range reads {
		if r.Len == 0 {
			if len(r.Blocks) != 0 || r.Out != "" {
				return fmt.Sprintf("mismatch empty-read g=%d", r.G)
			}
			continue
		}
		if len(r.Blocks) == 0 {
			return fmt.Sprintf("mismatch no-blocks g=%d len=%d", r.G, r.Len)
		}
		nz = append(nz, r)
	}
	// by construction: no counter block may have been encrypted for two reads (or twice for one)
	owner := map[uint64]int{}
	for k, r := range nz {
		for _, b := range r.Blocks {
			if prev, dup := owner[b]; dup {
				return fmt.Sprintf("shared-block block=%d handed to read g=%d len=%d and read g=%d len=%d", b, nz[prev].G, nz[prev].Len, r.G, r.Len)
			}
			owner[b] = k
		}
	}
	sort.SliceStable(nz, func(i, j int) bool { return nz[i].Blocks[0] < nz[j].Blocks[0] })
	for _, r := range nz {
		buf := make([]byte, r.Len)
		if _, err := c.Read(buf); err != nil {
			return "err read"
		}
		if hex.EncodeToString(buf) != r.Out {
			return fmt.Sprintf("mismatch g=%d len=%d iv=%d: not the keystream a sequential run yields", r.G, r.Len, r.Blocks[0])
		}
	}
	if c.VerifCounter() != final {
		return fmt.Sprintf("mismatch final counter %d sequential %d", final, c.VerifCounter())
	}
	return fmt.Sprintf("ok final=%d", final)
}

// ---------------------------------------------------------------------------------------------
// cache-script: controlled schedules over one credential

type csEvent struct {
	text    string // "empty" | "cached" | "done"
	builder *gabi.NonRevocationProofBuilder
	err     error
	th      *csThread
}

type csThread struct {
	id      int
	script  []string
	grant   chan struct{}
	kind    string
	running bool // inside an operation (paused or about to be resumed)
	next    int  // next script position
	built   int  // id of the builder the current operation creates, -1 if none
	pending bool // paused before building
}

type csSched struct {
	cur    atomic.Pointer[csThread]
	yield  chan csEvent
	nextID int
	free   atomic.Bool // set when a controlled schedule cannot proceed: everything runs freely
}

// how long a granted thread may stay silent before it is considered blocked on something a
// parked thread holds (e.g. a lock held across one of the log calls used as pause points)
const csStuckTimeout = 3 * time.Second

// Fire is the logrus hook: the library's own log calls are the pause points.
func (s *csSched) Levels() []logrus.Level { return []logrus.Level{logrus.TraceLevel} }
func (s *csSched) Fire(e *logrus.Entry) error {
	if s.free.Load() {
		return nil
	}
	th := s.cur.Load()
	if th == nil {
		return nil
	}
	ev := ""
	switch {
	case th.kind == "prepare" && e.Message == "updating existing nonrevocation commitment":
		ev = "cached"
	case th.kind == "prepare" && e.Message == "instantiating new nonrevocation commitment":
		ev = "empty"
	case th.kind == "consume" && e.Message == "revocation.NewProofCommit()":
		ev = "empty"
	default:
		return nil
	}
	if ev == "empty" {
		th.pending = true
	}
	s.yield <- csEvent{text: ev, th: th}
	<-th.grant
	return nil
}

var csEnv *c20Env
var csTemplate *gabi.Credential // signature, attributes and witness shared by all scripts
var csMu sync.Mutex

func execCacheScript(o Op) string {
	csMu.Lock()
	defer csMu.Unlock()
	if csEnv == nil {
		csEnv = c20NewEnv()
		csTemplate = c20Credential(csEnv)
	}
	var scripts [][]string
	b, _ := json.Marshal(o["threads"])
	if err := json.Unmarshal(b, &scripts); err != nil {
		return "bad-op threads"
	}
	var schedule []int
	b, _ = json.Marshal(o["schedule"])
	if err := json.Unmarshal(b, &schedule); err != nil {
		return "bad-op schedule"
	}
	// a fresh credential object (no cache channel yet) for every script
	cred := &gabi.Credential{Signature: csTemplate.Signature, Pk: csTemplate.Pk, Attributes: csTemplate.Attributes,
		NonRevocationWitness: csTemplate.NonRevocationWitness}

	s := &csSched{yield: make(chan csEvent)}
	lg := gabi.Logger
	oldLevel, oldOut, oldHooks := lg.GetLevel(), lg.Out, lg.ReplaceHooks(make(logrus.LevelHooks))
	lg.SetOutput(io.Discard)
	lg.SetLevel(logrus.TraceLevel)
	lg.AddHook(s)
	defer func() {
		lg.ReplaceHooks(oldHooks)
		lg.SetLevel(oldLevel)
		lg.SetOutput(oldOut)
	}()

	threads := make([]*csThread, len(scripts))
	var wg sync.WaitGroup
	for i, sc := range scripts {
		th := &csThread{id: i, script: sc, grant: make(chan struct{}), built: -1}
		threads[i] = th
		wg.Add(1)
		go func() {
			defer wg.Done()
			for _, k := range th.script {
				<-th.grant
				var ev csEvent
				func() {
					defer func() {
						if r := recover(); r != nil {
							ev = csEvent{text: "done", err: fmt.Errorf("panic: %v", r), th: th}
						}
					}()
					switch k {
					case "prepare":
						err := cred.NonrevPrepareCache()
						ev = csEvent{text: "done", err: err, th: th}
					default:
						bld, err := cred.VerifNonrevConsumeBuilder()
						ev = csEvent{text: "done", builder: bld, err: err, th: th}
					}
				}()
				s.yield <- ev
			}
		}()
	}

	ids := map[*gabi.NonRevocationProofBuilder]int{}
	randomizers := map[string]int{} // randomizer of every consumed builder -> its id
	consumed := map[int]int{}
	cached := -1 // id in the channel after the previous turn
	verdict := "ok"
	var events []string

	// look at the channel while every thread is parked
	peek := func(th *csThread) string {
		ch := cred.VerifC20CacheChan()
		if ch == nil {
			cached = -1
			return "-"
		}
		select {
		case bld := <-ch:
			id, known := ids[bld]
			if !known {
				id = -2
				if th != nil && th.built >= 0 {
					id = th.built
					ids[bld] = id
				}
			}
			select {
			case ch <- bld:
			default:
				return "lost"
			}
			cached = id
			return strconv.Itoa(id)
		default:
			cached = -1
			return "-"
		}
	}

	// a Consume returned: which builder went into a proof
	account := func(th *csThread, ev csEvent) int {
		id, known := ids[ev.builder]
		if !known {
			id = th.built
			if id < 0 { // built while running freely: any fresh number
				id = s.nextID
				s.nextID++
			}
			ids[ev.builder] = id
		}
		consumed[id]++
		if consumed[id] > 1 && verdict == "ok" {
			verdict = fmt.Sprintf("reused builder=%d", id)
		}
		if ev.builder != nil {
			rnd, _, _ := ev.builder.VerifState()
			key := showInt(rnd)
			if other, seen := randomizers[key]; seen && other != id && verdict == "ok" {
				verdict = fmt.Sprintf("reused randomizer=%d/%d", other, id)
			}
			randomizers[key] = id
		}
		return id
	}
	stuck := false

	turn := func(th *csThread, record bool) {
		if !th.running {
			if th.next >= len(th.script) {
				if record {
					events = append(events, fmt.Sprintf("t%d:idle", th.id))
				}
				return
			}
			th.kind = th.script[th.next]
			th.next++
			th.running = true
			th.built = -1
			th.pending = false
		}
		if th.pending {
			// resumed at its build step: the builder it creates gets the next id
			th.built = s.nextID
			s.nextID++
			th.pending = false
		}
		before := cached
		s.cur.Store(th)
		th.grant <- struct{}{}
		var ev csEvent
		select {
		case ev = <-s.yield:
		case <-time.After(csStuckTimeout):
			// The thread is blocked on something a parked thread holds. Under real concurrency
			// the parked thread would simply continue, so this is not a failure of the code; the
			// controlled schedule cannot be followed any further. The trace ends here (it will
			// differ from the model's) and everything runs to completion freely.
			stuck = true
			events = append(events, fmt.Sprintf("t%d:stuck", th.id))
			return
		}
		s.cur.Store(nil)
		kn := "prep"
		if th.kind == "consume" {
			kn = "cons"
		}
		txt := ev.text
		switch ev.text {
		case "cached":
			txt = fmt.Sprintf("cached=%d", before)
		case "done":
			th.running = false
			if ev.err != nil {
				txt = "error"
				verdict = "err " + strings.ReplaceAll(ev.err.Error(), " ", "_")
			} else if th.kind == "consume" {
				txt = fmt.Sprintf("done=%d", account(th, ev))
			}
		}
		occ := peek(th)
		if record {
			events = append(events, fmt.Sprintf("t%d:%s:%s/c%s", th.id, kn, txt, occ))
		}
	}

	for _, t := range schedule {
		if stuck {
			break
		}
		if t < 0 || t >= len(threads) {
			events = append(events, fmt.Sprintf("t%d:none", t))
			continue
		}
		turn(threads[t], true)
	}
	// let everything still in flight finish (not part of the compared trace)
	if !stuck {
		for _, th := range threads {
			for !stuck && (th.running || th.next < len(th.script)) {
				turn(th, false)
			}
		}
	}
	if stuck {
		s.free.Store(true)
		s.cur.Store(nil)
		finished := make(chan struct{})
		go func() { wg.Wait(); close(finished) }()
	drain:
		for {
			select {
			case ev := <-s.yield:
				if ev.text == "done" && ev.err == nil && ev.builder != nil {
					account(ev.th, ev)
				}
			case <-finished:
				break drain
			default:
				for _, th := range threads {
					select {
					case th.grant <- struct{}{}:
					default:
					}
				}
				time.Sleep(time.Millisecond)
			}
		}
		peek(nil)
	} else {
		wg.Wait()
	}
	// a builder left in the cache must not be one that went into a proof
	if cached >= 0 && consumed[cached] > 0 && verdict == "ok" {
		verdict = fmt.Sprintf("reused builder=%d", cached)
	}
	return strings.Join(append([]string{verdict}, events...), " ")
}
