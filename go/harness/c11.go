package main

import (
	"encoding/json"
	"fmt"
	"strconv"

	"github.com/privacybydesign/gabi"
	"github.com/privacybydesign/gabi/big"
	"github.com/privacybydesign/gabi/revocation"
)

// C11: non-revocation proofs are sound and tied to the credential.

func init() {
	generators["C11"] = genC11
	executors["verifyDnr"] = func(o Op) string {
		raw := treeToGabiJSON(o["proof"])
		pk := execKey(o.str("key")).pk
		ctx, nonce := unhx(o["context"]), unhx(o["nonce"])
		return repeat(8, func() string {
			return safely(func() string {
				p := &gabi.ProofD{}
				if err := json.Unmarshal(raw, p); err != nil {
					return "decode-error"
				}
				if !p.Verify(pk, ctx, nonce, o.boolean("issig")) {
					return "reject"
				}
				if p.NonRevocationProof == nil {
					return "accept:none"
				}
				acc := p.NonRevocationProof.SignedAccumulator.Accumulator
				return fmt.Sprintf("accept:%d:%d", acc.Index, acc.Time)
			})
		})
	}
}

// issuerRev is the issuer side of a revocation history driven through the real code.
type issuerRev struct {
	kp     *KeyPair
	acc    *revocation.Accumulator
	events []*revocation.Event
	t      int64
}

func newIssuerRev(g *Rng, kp *KeyPair) *issuerRev {
	upd, err := revocation.NewAccumulator(kp.sk)
	if err != nil {
		panic(err)
	}
	acc, _ := upd.SignedAccumulator.UnmarshalVerify(kp.pk)
	acc.Time = 5000
	return &issuerRev{kp: kp, acc: acc, events: upd.Events, t: 5000}
}

func (ir *issuerRev) witnessFor() *revocation.Witness {
	w, err := revocation.RandomWitness(ir.kp.sk, ir.acc)
	if err != nil {
		panic(err)
	}
	w.SignedAccumulator, _ = ir.acc.Sign(ir.kp.sk)
	return w
}

func (ir *issuerRev) revoke(e *big.Int) {
	na, ev, err := ir.acc.Remove(ir.kp.sk, e, ir.events[len(ir.events)-1])
	if err != nil {
		panic(err)
	}
	ir.t += 10
	na.Time = ir.t
	ir.acc = na
	ir.events = append(ir.events, ev)
}

func (ir *issuerRev) updateFrom(idx uint64) *revocation.Update {
	u, err := revocation.NewUpdate(ir.kp.sk, ir.acc, append([]*revocation.Event{}, ir.events[idx:]...))
	if err != nil {
		panic(err)
	}
	return u
}

func nrOp(kp *KeyPair, tree T, ctx, nonce *big.Int, class, label string) Op {
	o := Op{"op": "verifyDnr", "class": class, "label": label, "key": kp.id, "proof": tree, "context": hx(ctx), "nonce": hx(nonce), "issig": false}
	o["sigviews"] = sigViews(tree, []*KeyPair{kp})
	return o
}

// ambiguous: does the proof have more than one hidden response below 2^580 (the known finding
// C11/revocation-attr-index-ambiguity applies to such proofs only)?
func ambiguous(tree T) bool {
	lim := new(big.Int).Lsh(bi(1), 580)
	n := 0
	if ar, ok := tree["a_responses"].(T); ok {
		for k, v := range ar {
			if k == "0" {
				continue // the secret key is never taken for the revocation attribute
			}
			if h, ok := isLeafI(v); ok && unhx(h).Cmp(lim) < 0 {
				n++
			}
		}
	}
	return n > 1
}

// honestNrOp: an honestly produced proof; only when it is ambiguous in the sense above is a
// rejection attributed to the known finding.
func honestNrOp(kp *KeyPair, tree T, ctx, nonce *big.Int, class, label string) Op {
	o := nrOp(kp, tree, ctx, nonce, class, label)
	if ambiguous(tree) {
		o["fkey"] = "C11/revocation-attr-index-ambiguity"
	}
	return o
}

func genC11(g *Rng, tier string, emit func(Op)) {
	emit(installedWitnessCopyOp(g, fixedKey("k1024a", true)))
	for _, o := range highIndexSplitOps(g, fixedKey("k1024a", true), "C11/split-at-high-index") {
		emit(o)
	}
	keys := []*KeyPair{fixedKey("k1024a", true)}
	depth, nscripts := 4, 14
	nhonest := 0
	if tier == "thorough" {
		keys = append(keys, toyKey("toy1", 6), fixedKey("k2048", true))
		depth, nscripts = 6, 40
		nhonest = 6000 // volume to expose the ~2^-11 honest failures
	}
	for _, kp := range keys {
		emit(declKey(kp))
	}
	for _, kp := range keys {
		pk := kp.pk
		for sc := 0; sc < nscripts; sc++ {
			ir := newIssuerRev(g, kp)
			w := ir.witnessFor()
			attrs := []*big.Int{attrValue(g, pk.Params.Lm), w.E, g.bits(200)}
			secret := randSecret(g)
			cred := issueCred(kp, secret, attrs)
			cred.NonRevocationWitness = w
			other := ir.witnessFor() // another holder's witness
			revoked := false
			script := ""
			// the first scripts are fixed: every path through cache preparation / refresh is taken
			fixed := []string{"PoupP", "Popup", "PPoup", "ouPp", "Pouop", "Psup", "Ptp", "PtPp", "tPp", "Poutp", "PtoutPp"}
			for step := 0; step < depth || (sc < len(fixed) && step < len(fixed[sc])); step++ {
				choice := g.intn(6)
				if sc < len(fixed) {
					if step >= len(fixed[sc]) {
						break
					}
					choice = map[byte]int{'P': 0, 'o': 1, 's': 2, 'u': 3, 'p': 4, 't': 5}[fixed[sc][step]]
				}
				switch choice {
				case 5:
					// the issuer re-signs the unchanged accumulator with a later time ("no new
					// revocations") and the holder takes it over (same index, no events)
					script += "t"
					wacc := cred.NonRevocationWitness.SignedAccumulator.Accumulator
					if wacc.Index != ir.acc.Index {
						continue
					}
					ir.t += 7
					na := *ir.acc
					na.Time = ir.t
					ir.acc = &na
					sacc, _ := na.Sign(kp.sk)
					if err := cred.NonRevocationWitness.Update(pk, &revocation.Update{SignedAccumulator: sacc, Events: []*revocation.Event{}}); err != nil {
						emit(Op{"op": "recorded", "class": "time-only-update", "label": "ok", "nomodel": true, "result": "err", "script": script})
					}
				case 0:
					script += "P"
					if err := cred.NonrevPrepareCache(); err != nil {
						panic(err)
					}
				case 1:
					script += "o"
					ir.revoke(revPrime(g))
				case 2:
					if revoked {
						continue
					}
					script += "s"
					ir.revoke(w.E)
					revoked = true
				case 3:
					script += "u"
					idx := cred.NonRevocationWitness.SignedAccumulator.Accumulator.Index
					if idx == ir.acc.Index {
						continue
					}
					err := cred.NonRevocationWitness.Update(pk, ir.updateFrom(idx+1))
					exp := "ok"
					if revoked {
						exp = "revoked"
					}
					got := "ok"
					if err == revocation.ErrorRevoked {
						got = "revoked"
					} else if err != nil {
						got = "err"
					}
					emit(Op{"op": "recorded", "class": "witness-update", "label": exp, "nomodel": true, "result": got, "script": script})
				default:
					script += "p"
					ctx, nonce := g.bits(256), g.bits(int(pk.Params.Lstatzk))
					proof, err := cred.CreateDisclosureProof([]int{1}, nil, true, ctx, nonce)
					if err != nil {
						emit(Op{"op": "recorded", "class": "prove-failed", "label": "built", "nomodel": true, "result": "error:" + err.Error(), "script": script})
						continue
					}
					wacc := cred.NonRevocationWitness.SignedAccumulator.Accumulator
					// the proof is made against the accumulator the witness points to: that index and
					// time are what a verifier must read
					label := fmt.Sprintf("accept:%d:%d", wacc.Index, wacc.Time)
					tree := proofDTree(proof)
					emit(honestNrOp(kp, tree, ctx, nonce, "script-"+strconv.Itoa(len(script)), label).with("script", script))
					if step == depth-1 || g.intn(3) == 0 {
						emitNonrevAttacks(g, kp, ir, cred, other, tree, ctx, nonce, emit)
					}
				}
			}
			// a revoked holder cannot prove against an accumulator from which its value was removed
			if revoked {
				sacc, _ := ir.acc.Sign(kp.sk)
				forged := *cred.NonRevocationWitness
				forged.SignedAccumulator = sacc
				_, err := (&gabi.Credential{Signature: cred.Signature, Pk: cred.Pk, Attributes: cred.Attributes, NonRevocationWitness: &forged}).CreateDisclosureProof([]int{1}, nil, true, bi(1), bi(2))
				res := "refused"
				if err == nil {
					res = "built"
				}
				emit(Op{"op": "recorded", "class": "revoked-cannot-commit", "label": "refused", "nomodel": true, "result": res})
			}
		}
		// the deterministic form of the known finding: a legitimate but small shared secret-key
		// randomiser makes the secret-key response a second candidate for "the revocation response"
		{
			ir := newIssuerRev(g, kp)
			w := ir.witnessFor()
			cred := issueCred(kp, randSecret(g), []*big.Int{g.bits(100), w.E})
			cred.NonRevocationWitness = w
			b, err := cred.CreateDisclosureProofBuilder(nil, nil, true)
			if err != nil {
				panic(err)
			}
			ctx, nonce := g.bits(256), g.bits(80)
			c, err := gabi.ProofBuilderList{b}.ChallengeWithRandomizers(ctx, nonce, map[string]*big.Int{"secretkey": g.bits(64)}, false)
			if err != nil {
				panic(err)
			}
			p := b.CreateProof(c).(*gabi.ProofD)
			wacc := w.SignedAccumulator.Accumulator
			emit(honestNrOp(kp, proofDTree(p), ctx, nonce, "small-secretkey-randomizer", fmt.Sprintf("accept:%d:%d", wacc.Index, wacc.Time)))
		}
		// the form of the known finding that remains: an honest prover whose randomiser for ANOTHER
		// hidden attribute happens to be short (probability 2^-12 per attribute and proof; forced here
		// through the builder's randomiser table)
		{
			ir := newIssuerRev(g, kp)
			w := ir.witnessFor()
			cred := issueCred(kp, randSecret(g), []*big.Int{g.bits(100), w.E})
			cred.NonRevocationWitness = w
			b, err := cred.CreateDisclosureProofBuilder(nil, nil, true)
			if err != nil {
				panic(err)
			}
			_, _, attrRand := b.VerifRandomizers()
			attrRand[1] = g.bits(500)
			ctx, nonce := g.bits(256), g.bits(80)
			c, err := gabi.ProofBuilderList{b}.ChallengeWithRandomizers(ctx, nonce, map[string]*big.Int{"secretkey": g.exactBits(592)}, false)
			if err != nil {
				panic(err)
			}
			p := b.CreateProof(c).(*gabi.ProofD)
			wacc := w.SignedAccumulator.Accumulator
			emit(honestNrOp(kp, proofDTree(p), ctx, nonce, "short-attribute-randomizer", fmt.Sprintf("accept:%d:%d", wacc.Index, wacc.Time)))
		}
		// a revoked holder whose SECRET KEY equals the revocation value of a colluding, unrevoked
		// holder: the non-revocation part is built from the other holder's witness and tied to the
		// secret-key response (made small); the credential's own revocation attribute gets a
		// full-size randomiser, so the verifier's guess falls on index 0
		{
			ir := newIssuerRev(g, kp)
			wA, wB := ir.witnessFor(), ir.witnessFor()
			credA := issueCred(kp, new(big.Int).Set(wB.E), []*big.Int{g.bits(100), wA.E})
			ir.revoke(wA.E)
			if err := wB.Update(pk, ir.updateFrom(1)); err == nil {
				b, err := credA.CreateDisclosureProofBuilder(nil, nil, false)
				if err != nil {
					panic(err)
				}
				_, _, attrRand := b.VerifRandomizers()
				attrRand[1], attrRand[2] = g.exactBits(592), g.exactBits(592)
				rnd := g.bits(500)
				ctx, nonce := g.bits(256), g.bits(80)
				contribs, err := b.Commit(map[string]*big.Int{"secretkey": rnd})
				if err != nil {
					panic(err)
				}
				nrContribs, commit, err := revocation.NewProofCommit(pk, wB, rnd)
				if err != nil {
					panic(err)
				}
				c := gabi.VerifCreateChallenge(ctx, nonce, append(contribs, nrContribs...), false)
				pd := b.CreateProof(c).(*gabi.ProofD)
				nr := commit.BuildProof(c)
				delete(nr.Responses, "alpha")
				pd.NonRevocationProof = nr
				emit(nrOp(kp, proofDTree(pd), ctx, nonce, "foreign-witness-via-secret-key", "reject").with("fkey", "C11/foreign-witness-via-secret-key"))
			}
		}
		// the soundness side of the verifier's guess (known finding): a REVOKED holder whose credential
		// has a hidden attribute of value 1 (the encoding of an empty string) proves non-revocation
		// with the trivial witness (u = nu, e = 1), which is valid for every accumulator: that
		// attribute gets the small randomiser, the real revocation attribute a full-size one, so the
		// verifier's guess falls on the attribute of value 1
		{
			ir := newIssuerRev(g, kp)
			wA := ir.witnessFor()
			credA := issueCred(kp, randSecret(g), []*big.Int{bi(1), g.bits(100), wA.E})
			ir.revoke(wA.E)
			sacc, err := ir.acc.Sign(kp.sk)
			if err == nil {
				if _, err = sacc.UnmarshalVerify(pk); err == nil {
					trivial := &revocation.Witness{U: new(big.Int).Set(ir.acc.Nu), E: bi(1), SignedAccumulator: sacc}
					b, err := credA.CreateDisclosureProofBuilder(nil, nil, false)
					if err != nil {
						panic(err)
					}
					_, _, attrRand := b.VerifRandomizers()
					rnd := g.bits(500)
					attrRand[1] = rnd
					attrRand[2], attrRand[3] = g.exactBits(592), g.exactBits(592)
					ctx, nonce := g.bits(256), g.bits(80)
					contribs, err := b.Commit(map[string]*big.Int{"secretkey": g.exactBits(592)})
					if err != nil {
						panic(err)
					}
					if nrContribs, commit, err := revocation.NewProofCommit(pk, trivial, rnd); err == nil {
						c := gabi.VerifCreateChallenge(ctx, nonce, append(contribs, nrContribs...), false)
						pd := b.CreateProof(c).(*gabi.ProofD)
						nr := commit.BuildProof(c)
						delete(nr.Responses, "alpha")
						pd.NonRevocationProof = nr
						emit(nrOp(kp, proofDTree(pd), ctx, nonce, "revoked-holder-trivial-witness", "reject").with("fkey", "C11/revocation-attr-chosen-by-prover"))
					}
				}
			}
		}
		// honest proofs whose non-revocation randomiser sits at the ends of its range [0, 2^579)
		// (NewProofRandomizer can return any of these): all must be accepted
		{
			ir := newIssuerRev(g, kp)
			w := ir.witnessFor()
			cred := issueCred(kp, randSecret(g), []*big.Int{g.bits(100), w.E})
			cred.NonRevocationWitness = w
			wacc := w.SignedAccumulator.Accumulator
			top := new(big.Int).Lsh(bi(1), 579)
			for _, rnd := range []*big.Int{new(big.Int).Sub(top, bi(1)), new(big.Int).Sub(top, g.bits(300)), new(big.Int).Sub(top, g.bits(570)), bi(0), bi(1)} {
				plain := &gabi.Credential{Signature: cred.Signature, Pk: cred.Pk, Attributes: cred.Attributes}
				b, err := plain.CreateDisclosureProofBuilder(nil, nil, false)
				if err != nil {
					panic(err)
				}
				_, _, attrRand := b.VerifRandomizers()
				attrRand[2] = rnd
				ctx, nonce := g.bits(256), g.bits(80)
				contribs, err := b.Commit(map[string]*big.Int{"secretkey": g.exactBits(592)})
				if err != nil {
					panic(err)
				}
				nrContribs, commit, err := revocation.NewProofCommit(pk, w, rnd)
				if err != nil {
					panic(err)
				}
				c := gabi.VerifCreateChallenge(ctx, nonce, append(contribs, nrContribs...), false)
				pd := b.CreateProof(c).(*gabi.ProofD)
				nr := commit.BuildProof(c)
				delete(nr.Responses, "alpha")
				pd.NonRevocationProof = nr
				emit(honestNrOp(kp, proofDTree(pd), ctx, nonce, "randomizer-at-range-end", fmt.Sprintf("accept:%d:%d", wacc.Index, wacc.Time)))
			}
		}
		// volume of honest proofs (thorough): each must be accepted
		if nhonest > 0 && kp.id == "k1024ar" {
			ir := newIssuerRev(g, kp)
			w := ir.witnessFor()
			cred := issueCred(kp, randSecret(g), []*big.Int{g.bits(100), g.bits(100), g.bits(100), w.E})
			cred.NonRevocationWitness = w
			wacc := w.SignedAccumulator.Accumulator
			for i := 0; i < nhonest; i++ {
				ctx, nonce := g.bits(256), g.bits(80)
				p, err := cred.CreateDisclosureProof(nil, nil, true, ctx, nonce)
				if err != nil {
					panic(err)
				}
				emit(honestNrOp(kp, proofDTree(p), ctx, nonce, "honest-volume", fmt.Sprintf("accept:%d:%d", wacc.Index, wacc.Time)))
			}
		}
	}
}

func emitNonrevAttacks(g *Rng, kp *KeyPair, ir *issuerRev, cred *gabi.Credential, other *revocation.Witness, tree T, ctx, nonce *big.Int, emit func(Op)) {
	// every single-field alteration of the non-revocation part
	for _, lp := range leafPaths(tree) {
		if len(lp) == 0 || lp[0] != "nonrev_proof" {
			continue
		}
		t2 := cloneTree(tree).(T)
		setAt(t2, lp, I(new(big.Int).Add(leafInt(t2, lp), bi(1))))
		emit(nrOp(kp, t2, ctx, nonce, "nr-alter1", "reject"))
	}
	// members of the non-revocation part missing, null or empty: a refusal, never a crash
	for _, name := range []string{"responses", "C_r", "C_u", "sacc"} {
		for _, how := range []string{"absent", "null"} {
			t2 := cloneTree(tree).(T)
			nr := t2["nonrev_proof"].(T)
			if how == "absent" {
				delete(nr, name)
			} else {
				nr[name] = nil
			}
			emit(nrOp(kp, t2, ctx, nonce, "nr-member-"+how, "reject|decode-error").with("fkey", "C11/nr-member-missing"))
			emit(Op{"op": "verifyD-with-challenge", "class": "entry-with-challenge-nr-member-" + how, "label": "reject|decode-error", "nomodel": true, "fkey": "C08/entry-with-challenge",
				"key": kp.id, "proof": cloneTree(t2)})
		}
	}
	if rs, ok := tree["nonrev_proof"].(T)["responses"].(T); ok {
		t2 := cloneTree(tree).(T)
		t2["nonrev_proof"].(T)["responses"] = T{}
		emit(nrOp(kp, t2, ctx, nonce, "nr-responses-empty", "reject|decode-error").with("fkey", "C11/nr-member-missing"))
		for k := range rs {
			t3 := cloneTree(tree).(T)
			delete(t3["nonrev_proof"].(T)["responses"].(T), k)
			emit(nrOp(kp, t3, ctx, nonce, "nr-response-absent", "reject|decode-error").with("fkey", "C11/nr-member-missing"))
			emit(Op{"op": "verifyD-with-challenge", "class": "entry-with-challenge-nr-response-absent", "label": "reject|decode-error", "nomodel": true, "fkey": "C08/entry-with-challenge",
				"key": kp.id, "proof": cloneTree(t3)})
		}
	}
	// the prover-chosen group elements moved by multiples of the modulus: the same residue, another
	// number - it is the number as received that the challenge binds
	for _, name := range []string{"C_r", "C_u"} {
		for _, k := range []*big.Int{bi(1), bi(2), new(big.Int).Lsh(bi(1), 40)} {
			t2 := cloneTree(tree).(T)
			nr := t2["nonrev_proof"].(T)
			if nr[name] == nil {
				continue
			}
			nr[name] = I(new(big.Int).Add(leafInt(t2, []any{"nonrev_proof", name}), new(big.Int).Mul(k, kp.pk.N)))
			emit(nrOp(kp, t2, ctx, nonce, "nr-alter-plus-multiple-of-N", "reject").with("fkey", "C11/nr-alter-plus-multiple-of-N"))
		}
	}
	// signed accumulator replaced by another genuinely signed one (older / newer index)
	for _, delta := range []int{0, 1} {
		a := *ir.acc
		if delta == 1 {
			na, _, err := ir.acc.Remove(kp.sk, revPrime(g), ir.events[len(ir.events)-1])
			if err != nil {
				continue
			}
			a = *na
			a.Time = ir.t + 5
		} else {
			// the same accumulator value re-signed with a newer time (the issuer does this to signal
			// "no new revocations"): the witness is valid against it as well, so no verdict is demanded
			a.Time += 1
		}
		sacc, _ := a.Sign(kp.sk)
		t2 := cloneTree(tree).(T)
		t2["nonrev_proof"].(T)["sacc"] = saccTree(&revocation.SignedAccumulator{Data: sacc.Data, PKCounter: sacc.PKCounter})
		if delta == 0 {
			emit(nrOp(kp, t2, ctx, nonce, "nr-same-accumulator-newer-time", ""))
		} else {
			emit(nrOp(kp, t2, ctx, nonce, "nr-other-accumulator", "reject"))
			// the same, with the accumulator the proof WAS made against smuggled in as additional
			// members of the wire object (named like the decoded-accumulator field of the Go struct,
			// or like its tag): only the signed bytes may determine what the verifier uses
			if wacc := cred.NonRevocationWitness.SignedAccumulator.Accumulator; wacc != nil {
				raw, err := json.Marshal(wacc)
				if err != nil {
					panic(err)
				}
				for _, name := range []string{"-", "Accumulator", "accumulator", "acc"} {
					t3 := cloneTree(t2).(T)
					t3["nonrev_proof"].(T)["sacc"].(T)[name] = T{"$raw": string(raw)}
					emit(nrOp(kp, t3, ctx, nonce, "nr-other-accumulator-extra-member", "reject"))
				}
			}
		}
	}
	// signature bytes / counter
	{
		t2 := cloneTree(tree).(T)
		sa := t2["nonrev_proof"].(T)["sacc"].(T)
		d := unhb(sa["data"].(T)["$b"])
		d[len(d)-3] ^= 4
		sa["data"] = B(d)
		emit(nrOp(kp, t2, ctx, nonce, "nr-bad-signature", "reject"))
		// the same message read into an object that has just carried (and verified) the honest proof:
		// the signed bytes are verified again, nothing decoded from the earlier ones is kept
		emit(verifyDOp(kp.id, cloneTree(t2), ctx, nonce, false, "nr-bad-signature-into-used-object", "reject").with("decode_after", cloneTree(tree)).with("fkey", "C18/decoded-accumulator-kept"))
		t3 := cloneTree(tree).(T)
		t3["nonrev_proof"].(T)["sacc"].(T)["pk"] = int(kp.pk.Counter) + 1
		emit(nrOp(kp, t3, ctx, nonce, "nr-wrong-counter", "reject"))
	}
	// non-revocation part transplanted from another credential (foreign witness)
	{
		oc := issueCred(kp, randSecret(g), []*big.Int{g.bits(100), other.E, g.bits(50)})
		oc.NonRevocationWitness = other
		if op, err := oc.CreateDisclosureProof([]int{1}, nil, true, ctx, nonce); err == nil {
			t2 := cloneTree(tree).(T)
			t2["nonrev_proof"] = proofDTree(op)["nonrev_proof"]
			emit(nrOp(kp, t2, ctx, nonce, "nr-transplanted", "reject"))
			// and the other way round
			t3 := proofDTree(op)
			t3["nonrev_proof"] = cloneTree(tree["nonrev_proof"])
			emit(nrOp(kp, t3, ctx, nonce, "nr-transplanted", "reject"))
		}
	}
	// forged non-revocation part: C_r = C_u = 0 make every reconstructed commitment 0, whatever the
	// accumulator: a holder whose value was REMOVED "proves" non-revocation against the newest
	// accumulator. (The cheating prover picks a short randomiser for the revocation attribute.)
	{
		na, _, err := ir.acc.Remove(kp.sk, cred.NonRevocationWitness.E, ir.events[len(ir.events)-1])
		if err == nil {
			na.Time = ir.t + 3
			sacc, _ := na.Sign(kp.sk)
			plain := &gabi.Credential{Signature: cred.Signature, Pk: cred.Pk, Attributes: cred.Attributes}
			b, err := plain.CreateDisclosureProofBuilder([]int{1}, nil, false)
			if err != nil {
				panic(err)
			}
			_, _, attrRand := b.VerifRandomizers()
			revIdx := 2
			attrRand[revIdx] = g.bits(500)
			contribs, err := b.Commit(map[string]*big.Int{"secretkey": g.exactBits(592)})
			if err != nil {
				panic(err)
			}
			z := bi(0)
			contribs = append(contribs, z, z, na.Nu, z, z, z)
			c := gabi.VerifCreateChallenge(ctx, nonce, contribs, false)
			fp := b.CreateProof(c).(*gabi.ProofD)
			tf := proofDTree(fp)
			tf["nonrev_proof"] = T{"C_r": I(z), "C_u": I(z), "responses": T{"beta": I(bi(1)), "delta": I(bi(1)), "epsilon": I(bi(1)), "zeta": I(bi(1))},
				"sacc": saccTree(&revocation.SignedAccumulator{Data: sacc.Data, PKCounter: sacc.PKCounter})}
			emit(nrOp(kp, tf, ctx, nonce, "nr-forged-zero-commitments", "reject").with("fkey", "C11/nonunit-commitments"))
			// the mixed form: C_r an honest unit, only C_u a (positive) multiple of N. The relations
			// that involve C_r alone are proven honestly with the revocation attribute e, which the
			// revoked holder knows; the one relation that involves the witness (nu = C_u^e h^-(e r2))
			// collapses to 0.
			for _, mult := range []int64{1, 2} {
				pk := kp.pk
				e := cred.NonRevocationWitness.E
				b, err := plain.CreateDisclosureProofBuilder([]int{1}, nil, false)
				if err != nil {
					panic(err)
				}
				_, _, attrRand := b.VerifRandomizers()
				ra := g.bits(500)
				attrRand[revIdx] = ra
				contribs, err := b.Commit(map[string]*big.Int{"secretkey": g.exactBits(592)})
				if err != nil {
					panic(err)
				}
				r2, r3 := g.bits(1000), g.bits(1000)
				rb, rd, re, rz := g.bits(1500), g.bits(1500), g.bits(1300), g.bits(1300)
				exp := func(base, x *big.Int) *big.Int {
					if x.Sign() < 0 {
						inv := new(big.Int).ModInverse(base, pk.N)
						return new(big.Int).Exp(inv, new(big.Int).Neg(x), pk.N)
					}
					return new(big.Int).Exp(base, x, pk.N)
				}
				mul := func(xs ...*big.Int) *big.Int {
					r := bi(1)
					for _, x := range xs {
						r.Mul(r, x).Mod(r, pk.N)
					}
					return r
				}
				cr := mul(exp(pk.G, r2), exp(pk.H, r3))
				cu := new(big.Int).Mul(pk.N, bi(mult))
				t1 := mul(exp(pk.G, re), exp(pk.H, rz))
				t3 := mul(exp(cr, ra), exp(pk.G, new(big.Int).Neg(rb)), exp(pk.H, new(big.Int).Neg(rd)))
				contribs = append(contribs, cr, cu, na.Nu, t1, bi(0), t3)
				c := gabi.VerifCreateChallenge(ctx, nonce, contribs, false)
				fp := b.CreateProof(c).(*gabi.ProofD)
				tf := proofDTree(fp)
				resp := func(r, secret *big.Int) *big.Int { return new(big.Int).Add(r, new(big.Int).Mul(c, secret)) }
				tf["nonrev_proof"] = T{"C_r": I(cr), "C_u": I(cu), "responses": T{
					"beta": I(resp(rb, new(big.Int).Mul(e, r2))), "delta": I(resp(rd, new(big.Int).Mul(e, r3))),
					"epsilon": I(resp(re, r2)), "zeta": I(resp(rz, r3))},
					"sacc": saccTree(&revocation.SignedAccumulator{Data: sacc.Data, PKCounter: sacc.PKCounter})}
				emit(nrOp(kp, tf, ctx, nonce, "nr-forged-Cu-multiple-of-N", "reject").with("fkey", "C11/nonunit-commitments"))
			}
		}
	}
	// non-revocation part dropped
	{
		t2 := cloneTree(tree).(T)
		delete(t2, "nonrev_proof")
		emit(nrOp(kp, t2, ctx, nonce, "nr-dropped", "reject"))
	}
	// the witness response is not the hidden attribute of the credential: credential whose
	// revocation attribute differs from the witness value -> the prover refuses
	{
		bad := issueCred(kp, randSecret(g), []*big.Int{g.bits(100), g.bits(190)})
		bad.NonRevocationWitness = other
		_, err := bad.CreateDisclosureProof(nil, nil, true, ctx, nonce)
		res := "refused"
		if err == nil {
			res = "built"
		}
		emit(Op{"op": "recorded", "class": "foreign-witness-prover", "label": "refused", "nomodel": true, "result": res})
	}
}
