package main

// C18 msg-roundtrip: every protocol message type produced by the real library is marshalled,
// unmarshalled and verified; the verdict after the round trip must be the verdict before it.
//
// The op line carries the message (its JSON form, written at gen time BEFORE the in-memory
// verification that yields "orig", because verification fills the json:"-" fields) and the
// verification context. exec: payload -> object -> verify (v0); payload -> object -> marshal with
// the codec -> unmarshal -> verify (v1); the re-read object re-marshalled to JSON is compared with
// the payload's re-marshalling (nil and empty containers identified).
// Result line: "accept same|diff" / "reject -" when orig = v0 = v1, otherwise "changed ...".

import (
	"bytes"
	"encoding/json"
	"fmt"
	"os"
	"reflect"
	"sort"
	"strings"
	"sync"

	"github.com/fxamacker/cbor"
	"github.com/privacybydesign/gabi"
	"github.com/privacybydesign/gabi/big"
	"github.com/privacybydesign/gabi/gabikeys"
	"github.com/privacybydesign/gabi/rangeproof"
	"github.com/privacybydesign/gabi/revocation"
)

func init() {
	executors["msg-roundtrip"] = execMsgRoundtrip
}

type kssPair struct {
	Comm gabi.KeyshareCommitmentRequest       `json:"comm"`
	Resp gabi.KeyshareResponseRequest[string] `json:"resp"`
}

type eventsMsg struct {
	Sacc   *revocation.SignedAccumulator `json:"sacc"`
	Events []*revocation.Event           `json:"events"`
}

func newMsg(kind string) any {
	switch kind {
	case "proofd":
		return &gabi.ProofD{}
	case "proofu":
		return &gabi.ProofU{}
	case "proofs":
		return &gabi.ProofS{}
	case "prooflist":
		return &gabi.ProofList{}
	case "icm":
		return &gabi.IssueCommitmentMessage{}
	case "ism":
		return &gabi.IssueSignatureMessage{}
	case "witness":
		return &revocation.Witness{}
	case "sacc":
		return &revocation.SignedAccumulator{}
	case "update":
		return &revocation.Update{}
	case "eventlist":
		return &revocation.EventList{}
	case "kss":
		return &kssPair{}
	case "proofp":
		return &gabi.ProofP{}
	case "proofpcommit":
		return &gabi.ProofPCommitment{}
	case "clsig":
		return &gabi.CLSignature{}
	case "credential":
		return &gabi.Credential{}
	}
	panic("unknown message kind " + kind)
}

func opKeys(o Op) []*gabikeys.PublicKey {
	var r []*gabikeys.PublicKey
	for _, id := range o["keys"].([]any) {
		r = append(r, execKey(id.(string)).pk)
	}
	return r
}

// verifyMsg gives the meaning of a message: does it verify in the context stated by the line.
func verifyMsg(kind string, m any, o Op) (res string) {
	defer func() {
		if r := recover(); r != nil {
			res = "panic"
		}
	}()
	keys := opKeys(o)
	ctx, nonce := unhxOpt(o["context"]), unhxOpt(o["nonce"])
	issig := o.boolean("issig")
	switch kind {
	case "proofd":
		p := m.(*gabi.ProofD)
		// what the verifier was promised (stated by the line independently of the message):
		// presence of the non-revocation proof, the range statements, the disclosed values
		if v, ok := o["wantNonrev"].(bool); ok && v != p.HasNonRevocationProof() {
			return "reject"
		}
		if wr, ok := o["wantRanges"].([]any); ok {
			for _, r := range wr {
				rr := r.([]any)
				idx, sign, bound := int(unhx(rr[0]).Int64()), int(unhx(rr[1]).Int64()), unhx(rr[2])
				found := false
				for _, rp := range p.RangeProofs[idx] {
					if rp != nil && rp.ProvesStatement(sign, 1, bound) {
						found = true
					}
				}
				if !found {
					return "reject"
				}
			}
		}
		if wd, ok := o["wantDisclosed"]; ok {
			want := unhxmap(wd)
			if len(want) != len(p.ADisclosed) {
				return "reject"
			}
			for i, v := range want {
				if !intEq(v, p.ADisclosed[i]) {
					return "reject"
				}
			}
		}
		if o.boolean("single") {
			return verdict(p.Verify(keys[0], ctx, nonce, issig))
		}
		return verdict(gabi.ProofList{p}.Verify(keys, ctx, nonce, issig, nil))
	case "proofu":
		return verdict(m.(*gabi.ProofU).Verify(keys[0], ctx, nonce))
	case "prooflist":
		return verdict(m.(*gabi.ProofList).Verify(keys, ctx, nonce, issig, nil))
	case "icm":
		msg := m.(*gabi.IssueCommitmentMessage)
		ok := msg.Proofs.Verify(keys, ctx, nonce, false, nil)
		if pu, err := msg.Proofs.GetFirstProofU(); err != nil || (msg.U != nil && !intEq(msg.U, pu.U)) {
			ok = false
		}
		return verdict(ok && intEq(msg.Nonce2, unhx(o["nonce2"])))
	case "proofs":
		var sig gabi.CLSignature
		decodeInto(o["signature"], &sig)
		return verdict(m.(*gabi.ProofS).Verify(keys[0], &sig, ctx, nonce))
	case "ism":
		// what CredentialBuilder.ConstructCredential checks, with the builder's secrets from the line
		msg := m.(*gabi.IssueSignatureMessage)
		pk := keys[0]
		if msg.Proof == nil || msg.Signature == nil || !msg.Proof.Verify(pk, msg.Signature, ctx, nonce) {
			return "reject"
		}
		sig := &gabi.CLSignature{A: msg.Signature.A, E: msg.Signature.E, V: new(big.Int).Add(msg.Signature.V, unhx(o["vPrime"])), KeyshareP: unhxOpt(o["keyshareP"])}
		var ms []*big.Int
		for _, a := range o["ms"].([]any) {
			ms = append(ms, unhxOpt(a))
		}
		for i, mu := range unhxmap(o["mUser"]) {
			if i >= len(ms) || ms[i] != nil || msg.MIssuer[i] == nil {
				return "reject"
			}
			ms[i] = new(big.Int).Add(msg.MIssuer[i], mu)
		}
		if msg.NonRevocationWitness != nil {
			if err := msg.NonRevocationWitness.Verify(pk); err != nil {
				return "reject"
			}
		}
		if o.boolean("wantWitness") != (msg.NonRevocationWitness != nil) {
			return "reject"
		}
		return verdict(sig.Verify(pk, ms))
	case "witness":
		return verdict(m.(*revocation.Witness).Verify(keys[0]) == nil)
	case "sacc":
		acc, err := m.(*revocation.SignedAccumulator).UnmarshalVerify(keys[0])
		if err != nil {
			return "reject"
		}
		return verdict(acc.Index == uint64(o.int("accIndex")) && intEq(acc.Nu, unhx(o["accNu"])))
	case "update":
		_, err := m.(*revocation.Update).Verify(keys[0])
		return verdict(err == nil)
	case "eventlist":
		var sacc revocation.SignedAccumulator
		decodeInto(o["sacc"], &sacc)
		acc, err := sacc.UnmarshalVerify(keys[0])
		if err != nil {
			return "reject"
		}
		return verdict(m.(*revocation.EventList).Verify(acc) == nil)
	case "kss":
		p := m.(*kssPair)
		km := map[string]*gabikeys.PublicKey{}
		for _, k := range keys {
			km[k.Issuer] = k
		}
		pp, err := gabi.KeyshareResponse(unhx(o["kssSecret"]), unhx(o["kssRandomizer"]), p.Comm, p.Resp, km)
		if err != nil {
			return "reject"
		}
		return verdict(intEq(pp.C, unhx(o["challenge"])))
	case "clsig":
		var ms []*big.Int
		for _, a := range o["ms"].([]any) {
			ms = append(ms, unhxOpt(a))
		}
		return verdict(m.(*gabi.CLSignature).Verify(keys[0], ms))
	case "credential":
		c := m.(*gabi.Credential)
		if c.Signature == nil {
			return "reject"
		}
		ok := c.Signature.Verify(keys[0], c.Attributes)
		if c.NonRevocationWitness != nil {
			ok = ok && c.NonRevocationWitness.Verify(keys[0]) == nil
		}
		return verdict(ok)
	case "proofp", "proofpcommit":
		return "accept" // plain data: the comparison of the re-read object is the whole meaning
	}
	panic("unknown kind")
}

func events(m any) []*revocation.Event {
	switch v := m.(type) {
	case *revocation.Update:
		return v.Events
	case *revocation.EventList:
		return v.Events
	}
	return nil
}

// normalise identifies null, empty arrays and empty objects (an empty map may come back as nil).
func normalise(v any) any {
	switch t := v.(type) {
	case map[string]any:
		if len(t) == 0 {
			return nil
		}
		r := map[string]any{}
		for k, x := range t {
			if nx := normalise(x); nx != nil {
				r[k] = nx
			}
		}
		if len(r) == 0 {
			return nil
		}
		return r
	case []any:
		if len(t) == 0 {
			return nil
		}
		r := make([]any, len(t))
		for i, x := range t {
			r[i] = normalise(x)
		}
		return r
	}
	return v
}

func jsonEqualNorm(a, b []byte) bool {
	var x, y any
	if json.Unmarshal(a, &x) != nil || json.Unmarshal(b, &y) != nil {
		return false
	}
	return reflect.DeepEqual(normalise(x), normalise(y))
}

// fromPayload builds the in-memory message from the op line.
func fromPayload(kind string, o Op) any {
	m := newMsg(kind)
	switch kind {
	case "update":
		// payload = signed accumulator + events in their plain (uncompressed) form
		var e eventsMsg
		decodeInto(o["payload"], &e)
		u := m.(*revocation.Update)
		u.SignedAccumulator, u.Events = e.Sacc, e.Events
		if u.Events == nil {
			u.Events = []*revocation.Event{}
		}
	case "eventlist":
		var e eventsMsg
		decodeInto(o["payload"], &e)
		m.(*revocation.EventList).Events = e.Events
	default:
		if err := json.Unmarshal([]byte(o.str("payload")), m); err != nil {
			panic(err)
		}
	}
	return m
}

func eventsEqual(a, b []*revocation.Event) bool {
	if len(a) != len(b) {
		return false
	}
	for i := range a {
		if a[i].Index != b[i].Index || !intEq(a[i].E, b[i].E) || !bytes.Equal(a[i].ParentHash, b[i].ParentHash) {
			return false
		}
	}
	return true
}

func execMsgRoundtrip(o Op) string {
	kind, codec, orig := o.str("kind"), o.str("codec"), o.str("orig")
	v0 := verifyMsg(kind, fromPayload(kind, o), o)
	fresh := fromPayload(kind, o)
	var wire []byte
	var err error
	m2 := newMsg(kind)
	switch codec {
	case "json":
		if wire, err = json.Marshal(fresh); err == nil {
			err = json.Unmarshal(wire, m2)
		}
	case "cbor":
		if wire, err = cbor.Marshal(fresh, cbor.EncOptions{}); err == nil {
			err = cbor.Unmarshal(wire, m2)
		}
	default:
		return "bad-op codec"
	}
	if err != nil {
		return "err"
	}
	j1, e1 := json.Marshal(fromPayload(kind, o))
	j2, e2 := json.Marshal(m2)
	same := "same"
	if e1 != nil || e2 != nil || !jsonEqualNorm(j1, j2) {
		same = "diff"
	}
	if kind == "update" || kind == "eventlist" {
		if !eventsEqual(events(fresh), events(m2)) {
			same = "diff"
		}
	}
	v1 := verifyMsg(kind, m2, o)
	// the kinds whose decoders are the library's own (not encoding/json's field merging): reading a
	// message into an object that has already carried - and been used for - another message gives
	// what reading it into a new object gives
	if pr, ok := o["prior"].(map[string]any); ok && err == nil {
		if r := usedObjectRoundtrip(kind, codec, Op(pr), o, wire, m2, v1); r != "" {
			return r
		}
	}
	if v0 != orig || v1 != orig {
		return fmt.Sprintf("changed %s orig=%s before=%s after=%s", same, orig, v0, v1)
	}
	if orig != "accept" {
		// a message that does not verify need not come back identical (e.g. the parent hashes of
		// a broken event chain are recomputed); only its verdict is compared
		return orig + " -"
	}
	return orig + " " + same
}

func usedObjectRoundtrip(kind, codec string, prior, o Op, wire []byte, fresh any, vfresh string) (res string) {
	defer func() {
		if r := recover(); r != nil {
			res = fmt.Sprintf("used-object: panic %v", r)
		}
	}()
	used := newMsg(kind)
	var err error
	switch codec {
	case "json":
		var w0 []byte
		if w0, err = json.Marshal(fromPayload(kind, prior)); err == nil {
			err = json.Unmarshal(w0, used)
		}
	case "cbor":
		var w0 []byte
		if w0, err = cbor.Marshal(fromPayload(kind, prior), cbor.EncOptions{}); err == nil {
			err = cbor.Unmarshal(w0, used)
		}
	}
	if err != nil {
		return "" // the earlier message does not decode: nothing to reuse
	}
	verifyMsg(kind, used, prior) // use it: whatever the library caches is now filled
	if u, ok := used.(*revocation.Update); ok && len(u.Events) > 0 {
		u.Product(u.Events[0].Index)
	}
	switch codec {
	case "json":
		err = json.Unmarshal(wire, used)
	case "cbor":
		err = cbor.Unmarshal(wire, used)
	}
	if err != nil {
		return "used-object: decode error " + err.Error()
	}
	if v := verifyMsg(kind, used, o); v != vfresh {
		return fmt.Sprintf("used-object: verdict %s, new object: %s", v, vfresh)
	}
	if vfresh == "accept" {
		j2, e2 := json.Marshal(fresh)
		j3, e3 := json.Marshal(used)
		if e2 != nil || e3 != nil || !jsonEqualNorm(j2, j3) || !eventsEqual(events(fresh), events(used)) {
			return "used-object: content differs from new object"
		}
		if u, ok := used.(*revocation.Update); ok && len(u.Events) > 0 {
			from := u.Events[0].Index
			if !intEq(u.Product(from), fresh.(*revocation.Update).Product(from)) {
				return "used-object: product of the events differs from new object"
			}
		}
	}
	return ""
}

// ---------------------------------------------------------------- generator

type msgCtx struct {
	g    *Rng
	emit func(Op)
	prev map[string]Op // per kind and codec: the message emitted before (read first into the reused object)
}

func jsonStr(v any) string { return string(must(json.Marshal(v))) }

// out emits one op per codec. The payload is written first; then the in-memory object is judged
// by the same meaning function exec uses (on the line as exec will see it): that verdict is
// "orig" and the label.
func (c *msgCtx) out(kind, class string, codecs []string, obj any, extra Op) {
	var payload any
	switch v := obj.(type) {
	case *revocation.Update:
		payload = eventsMsg{Sacc: v.SignedAccumulator, Events: v.Events}
	case *evl:
		payload = eventsMsg{Sacc: v.sacc, Events: v.el.Events}
		obj = v.el
	default:
		payload = jsonStr(obj)
	}
	payload = jsonAny(payload)
	o := Op{"op": "msg-roundtrip", "kind": kind, "payload": payload}
	for k, v := range extra {
		o[k] = v
	}
	orig := verifyMsg(kind, obj, jsonAny(o).(map[string]any))
	for _, codec := range codecs {
		key := "msg-" + kind + "-" + codec
		if kind == "eventlist" && strings.Contains(class, "empty") {
			key = "msg-eventlist-empty-" + codec
		} else if kind == "eventlist" && orig == "reject" {
			key = "msg-eventlist-invalid-" + codec
		}
		o2 := Op{}
		for k, v := range o {
			o2[k] = v
		}
		o2["class"], o2["codec"], o2["orig"], o2["label"], o2["key"] = kind+"/"+class+"/"+codec, codec, orig, orig, key
		if kind == "update" || kind == "eventlist" {
			if c.prev == nil {
				c.prev = map[string]Op{}
			}
			if pr, ok := c.prev[kind+codec]; ok {
				o2["prior"] = map[string]any(pr)
			}
			pr := Op{}
			for k, v := range o {
				pr[k] = v
			}
			c.prev[kind+codec] = pr
		}
		c.emit(o2)
	}
}

// try runs one optional part of the generator; a panic there (possible when the library under
// test misbehaves) drops that part only, so that the remaining cases still expose the fault.
func (c *msgCtx) try(f func()) {
	defer func() {
		if r := recover(); r != nil {
			fmt.Fprintln(os.Stderr, "C18 gen: skipped a derived case:", r)
		}
	}()
	f()
}

// evl: an event list together with the signed accumulator it is judged against
type evl struct {
	el   *revocation.EventList
	sacc *revocation.SignedAccumulator
}

// jsonAny passes a value through JSON so that it looks the way exec will see it.
func jsonAny(v any) any {
	var r any
	if err := json.Unmarshal(must(json.Marshal(v)), &r); err != nil {
		panic(err)
	}
	return r
}

var both = []string{"json", "cbor"}
var jsonOnly = []string{"json"}

func rnd(bits uint) *big.Int { return must(gabi.VerifRandomBigInt(bits)) }

func randAttrs(g *Rng, n int, small bool) []*big.Int {
	r := make([]*big.Int, n)
	for i := range r {
		if small {
			r[i] = bi(int64(1000 + g.intn(100000)))
		} else {
			r[i] = g.bits(1 + g.intn(255))
		}
	}
	return r
}

type issued struct {
	cred                            *gabi.Credential
	builder                         *gabi.CredentialBuilder
	icm                             *gabi.IssueCommitmentMessage
	ism                             *gabi.IssueSignatureMessage
	attrs                           []*big.Int
	context, nonce1, nonce2, secret *big.Int
}

func issue(kp *KeyPair, secret *big.Int, attrs []*big.Int, witness *revocation.Witness, keyshareP *big.Int, blind []int) *issued {
	pk := kp.pk
	r := &issued{context: rnd(pk.Params.Lh), nonce1: rnd(pk.Params.Lstatzk), nonce2: rnd(pk.Params.Lstatzk), secret: secret}
	if witness != nil {
		attrs = append(append([]*big.Int{}, attrs...), witness.E)
	}
	issueAttrs := append([]*big.Int{}, attrs...)
	for _, b := range blind {
		issueAttrs[b] = nil
	}
	r.attrs = issueAttrs
	r.builder = must(gabi.NewCredentialBuilder(pk, r.context, secret, r.nonce2, keyshareP, blind))
	r.icm = must(r.builder.CommitToSecretAndProve(r.nonce1))
	r.ism = must(gabi.NewIssuer(kp.sk, pk, r.context).IssueSignature(r.icm.U, issueAttrs, witness, r.nonce2, blind))
	r.cred = must(r.builder.ConstructCredential(r.ism, append([]*big.Int{}, issueAttrs...)))
	return r
}

func setupRev(kp *KeyPair) (*revocation.Witness, *revocation.Update, *revocation.Accumulator) {
	update := must(revocation.NewAccumulator(kp.sk))
	acc := must(update.SignedAccumulator.UnmarshalVerify(kp.pk))
	w := must(revocation.RandomWitness(kp.sk, acc))
	w.SignedAccumulator = update.SignedAccumulator
	return w, update, acc
}

func cloneViaJSON[T any](v *T) *T {
	var r T
	if err := json.Unmarshal(must(json.Marshal(v)), &r); err != nil {
		panic(err)
	}
	return &r
}

func inc(x *big.Int) *big.Int { return new(big.Int).Add(x, bi(1)) }

func genMsgs(g *Rng, thorough bool, emit func(Op)) {
	c := &msgCtx{g: g, emit: emit}
	kr := fixedKey("k1024a", true) // with revocation key material
	kb := fixedKey("k1024b", false)
	emit(declKey(kr))
	emit(declKey(kb))
	// the generator judges the in-memory messages with the executor's own function
	execKeys[kr.id], execKeys[kb.id] = kr, kb
	reps := 1
	if thorough {
		reps = 6
	}
	for rep := 0; rep < reps; rep++ {
		genMsgsOnce(c, kr, kb, thorough)
	}
}

func genMsgsOnce(c *msgCtx, kr, kb *KeyPair, thorough bool) {
	g := c.g
	pk := kr.pk
	secret := rnd(pk.Params.Lm - 1)
	keysR := []string{kr.id}

	// ---- issuance without revocation: ProofU, IssueCommitmentMessage, ProofS, IssueSignatureMessage, CLSignature, Credential
	for _, variant := range []string{"plain", "blind", "keyshare"} {
		var blind []int
		var ksP *big.Int
		kp := kb
		if variant == "blind" {
			blind = []int{1, 3}
		}
		if variant == "keyshare" {
			ksP = new(big.Int).Exp(kp.pk.R[0], rnd(255), kp.pk.N)
		}
		is := issue(kp, secret, randAttrs(g, 5, false), nil, ksP, blind)
		keys := []string{kp.id}
		pu := must(is.icm.Proofs.GetFirstProofU())
		ex := Op{"keys": keys, "context": hx(is.context), "nonce": hx(is.nonce1)}
		c.out("proofu", variant, both, pu, ex)
		c.try(func() {
			bad := cloneViaJSON(pu)
			bad.SResponse = inc(bad.SResponse)
			c.out("proofu", variant+"-tampered", both, bad, ex)
		})

		exI := Op{"keys": keys, "context": hx(is.context), "nonce": hx(is.nonce1), "nonce2": hx(is.nonce2)}
		c.out("icm", variant, jsonOnly, is.icm, exI)
		c.out("icm", variant+"-wrong-nonce", jsonOnly, is.icm, Op{"keys": keys, "context": hx(is.context), "nonce": hx(inc(is.nonce1)), "nonce2": hx(is.nonce2)})
		c.out("icm", variant+"-wrong-nonce2", jsonOnly, is.icm, Op{"keys": keys, "context": hx(is.context), "nonce": hx(is.nonce1), "nonce2": hx(inc(is.nonce2))})

		ms := append([]any{hx(secret)}, hxs(is.attrs)...)
		exS := Op{"keys": keys, "context": hx(is.context), "nonce": hx(is.nonce2), "vPrime": hx(is.builder.VerifVPrime()),
			"mUser": hxmap(is.builder.VerifMUser()), "ms": ms, "keyshareP": hx(ksP), "wantWitness": false}
		c.out("ism", variant, both, is.ism, exS)
		c.try(func() {
			badI := cloneViaJSON(is.ism)
			badI.Signature.V = inc(badI.Signature.V)
			c.out("ism", variant+"-tampered", both, badI, exS)
		})
		if variant == "blind" {
			c.try(func() {
				badI := cloneViaJSON(is.ism)
				badI.MIssuer[2] = inc(badI.MIssuer[2])
				c.out("ism", variant+"-tampered-missuer", both, badI, exS)
			})
		}

		exP := Op{"keys": keys, "context": hx(is.context), "nonce": hx(is.nonce2), "signature": is.ism.Signature}
		c.out("proofs", variant, both, is.ism.Proof, exP)
		c.try(func() {
			badP := cloneViaJSON(is.ism.Proof)
			badP.EResponse = inc(badP.EResponse)
			c.out("proofs", variant+"-tampered", both, badP, exP)
		})

		exC := Op{"keys": keys, "ms": hxs(is.cred.Attributes)}
		c.out("clsig", variant, both, is.cred.Signature, exC)
		c.out("credential", variant, both, is.cred, Op{"keys": keys})
	}

	// ---- disclosure proofs: every combination of non-revocation and range proofs
	witness, update0, acc0 := setupRev(kr)
	for _, nonrev := range []bool{false, true} {
		for _, rng := range []string{"none", "one", "multi"} {
			var w *revocation.Witness
			if nonrev {
				w = witness
			}
			is := issue(kr, secret, randAttrs(g, 4, true), w, nil, nil)
			var stmts map[int][]*rangeproof.Statement
			var wantRanges []any
			a1, a3 := is.cred.Attributes[1], is.cred.Attributes[3]
			st := func(idx int, typ rangeproof.StatementType, bound *big.Int) *rangeproof.Statement {
				sign := int64(1)
				if typ == rangeproof.LesserOrEqual {
					sign = -1
				}
				wantRanges = append(wantRanges, []any{hxi(int64(idx)), hxi(sign), hx(bound)})
				s := must(rangeproof.NewStatement(typ, new(big.Int).Set(bound)))
				// (the table splitter cannot prove a bound that is met with equality: not C18's subject)
				if g.coin() && bound.Cmp(is.cred.Attributes[idx]) != 0 {
					s.Splitter = c18Squares()
				}
				return s
			}
			switch rng {
			case "one":
				stmts = map[int][]*rangeproof.Statement{1: {st(1, rangeproof.GreaterOrEqual, new(big.Int).Sub(a1, bi(63)))}}
			case "multi":
				stmts = map[int][]*rangeproof.Statement{
					1: {st(1, rangeproof.GreaterOrEqual, new(big.Int).Sub(a1, bi(int64(g.intn(500))))),
						st(1, rangeproof.LesserOrEqual, new(big.Int).Add(a1, bi(int64(g.intn(500)))))},
					3: {st(3, rangeproof.LesserOrEqual, new(big.Int).Set(a3))}}
			}
			for _, disclosed := range [][]int{{2}, {}, {2, 4}} {
				if len(disclosed) != 1 && !(thorough || (nonrev && rng == "one")) {
					continue
				}
				ctx, nonce := rnd(pk.Params.Lh), rnd(pk.Params.Lstatzk)
				issig := g.coin()
				var pd *gabi.ProofD
				if issig {
					// signature sessions hash a marker; build through the builder list
					b := must(is.cred.CreateDisclosureProofBuilder(disclosed, stmts, nonrev))
					pl := must(gabi.ProofBuilderList{b}.BuildProofList(ctx, nonce, true))
					pd = pl[0].(*gabi.ProofD)
				} else {
					pd = must(is.cred.CreateDisclosureProof(disclosed, stmts, nonrev, ctx, nonce))
				}
				class := fmt.Sprintf("nonrev=%v,range=%s,disclosed=%d", nonrev, rng, len(disclosed))
				wantD := map[int]*big.Int{}
				for _, d := range disclosed {
					wantD[d] = is.cred.Attributes[d]
				}
				ex := Op{"keys": keysR, "context": hx(ctx), "nonce": hx(nonce), "issig": issig, "single": g.coin() && !issig,
					"wantNonrev": nonrev, "wantRanges": wantRanges, "wantDisclosed": hxmap(wantD)}
				if wantRanges == nil {
					ex["wantRanges"] = []any{}
				}
				payload := jsonStr(pd) // before any verification touches the object
				c.out("proofd", class, both, pd, ex)
				// tampered variants
				tamper := func(name string, f func(p *gabi.ProofD)) {
					c.try(func() {
						var p gabi.ProofD
						must(0, json.Unmarshal([]byte(payload), &p))
						f(&p)
						c.out("proofd", class+",tampered="+name, both, &p, ex)
					})
				}
				tamper("e_response", func(p *gabi.ProofD) { p.EResponse = inc(p.EResponse) })
				if len(disclosed) > 0 {
					tamper("a_disclosed", func(p *gabi.ProofD) { p.ADisclosed[disclosed[0]] = inc(p.ADisclosed[disclosed[0]]) })
				}
				if nonrev {
					tamper("nonrev-Cr", func(p *gabi.ProofD) { p.NonRevocationProof.Cr = inc(p.NonRevocationProof.Cr) })
					tamper("nonrev-beta", func(p *gabi.ProofD) {
						p.NonRevocationProof.Responses["beta"] = inc(p.NonRevocationProof.Responses["beta"])
					})
					tamper("nonrev-dropped", func(p *gabi.ProofD) { p.NonRevocationProof = nil })
				}
				if rng != "none" {
					tamper("range-v5", func(p *gabi.ProofD) { p.RangeProofs[1][0].V5Response = inc(p.RangeProofs[1][0].V5Response) })
					tamper("range-k", func(p *gabi.ProofD) { p.RangeProofs[1][0].K = inc(p.RangeProofs[1][0].K) })
					tamper("range-dropped", func(p *gabi.ProofD) { p.RangeProofs = nil })
				}
				ex2 := Op{}
				for k, v := range ex {
					ex2[k] = v
				}
				ex2["nonce"], ex2["single"] = hx(inc(nonce)), false
				c.try(func() {
					var p0 gabi.ProofD
					must(0, json.Unmarshal([]byte(payload), &p0))
					c.out("proofd", class+",wrong-nonce", both, &p0, ex2)
				})
			}
			if nonrev && rng == "none" {
				// issuance with a witness: the signature message carries it
				ms := append([]any{hx(secret)}, hxs(is.attrs)...)
				exS := Op{"keys": keysR, "context": hx(is.context), "nonce": hx(is.nonce2), "vPrime": hx(is.builder.VerifVPrime()),
					"mUser": hxmap(is.builder.VerifMUser()), "ms": ms, "keyshareP": nil, "wantWitness": true}
				c.out("ism", "witness", both, is.ism, exS)
				c.try(func() {
					badI := cloneViaJSON(is.ism)
					badI.NonRevocationWitness.U = inc(badI.NonRevocationWitness.U)
					c.out("ism", "witness-tampered", both, badI, exS)
				})
				c.try(func() {
					badI := cloneViaJSON(is.ism)
					badI.NonRevocationWitness = nil
					c.out("ism", "witness-dropped", both, badI, exS)
				})
				c.out("credential", "witness", both, is.cred, Op{"keys": keysR})
			}
		}
	}

	// ---- combined proofs: issuance bound to a disclosure (ProofU + ProofD), two disclosures
	{
		is1 := issue(kr, secret, randAttrs(g, 4, false), nil, nil, nil)
		is2 := issue(kb, secret, randAttrs(g, 5, false), nil, nil, nil)
		ctx, nonce := rnd(pk.Params.Lh), rnd(pk.Params.Lstatzk)
		b1 := must(is1.cred.CreateDisclosureProofBuilder([]int{1}, nil, false))
		b2 := must(is2.cred.CreateDisclosureProofBuilder([]int{2, 3}, nil, false))
		pl := must(gabi.ProofBuilderList{b1, b2}.BuildProofList(ctx, nonce, false))
		ex := Op{"keys": []string{kr.id, kb.id}, "context": hx(ctx), "nonce": hx(nonce), "issig": false}
		c.out("prooflist", "two-disclosures", jsonOnly, &pl, ex)
		// unbound: second proof from a different secret
		is3 := issue(kb, rnd(255), randAttrs(g, 5, false), nil, nil, nil)
		p3 := must(is3.cred.CreateDisclosureProof([]int{2}, nil, false, ctx, nonce))
		p1 := must(is1.cred.CreateDisclosureProof([]int{1}, nil, false, ctx, nonce))
		pl2 := gabi.ProofList{p1, p3}
		c.out("prooflist", "two-disclosures-unbound", jsonOnly, &pl2, ex)

		nonce2 := rnd(pk.Params.Lstatzk)
		cb := must(gabi.NewCredentialBuilder(kb.pk, ctx, secret, nonce2, nil, nil))
		b1b := must(is1.cred.CreateDisclosureProofBuilder([]int{1, 2}, nil, false))
		pl3 := must(gabi.ProofBuilderList{cb, b1b}.BuildProofList(ctx, nonce, false))
		icm := cb.CreateIssueCommitmentMessage(pl3)
		exI := Op{"keys": []string{kb.id, kr.id}, "context": hx(ctx), "nonce": hx(nonce), "nonce2": hx(nonce2)}
		c.out("icm", "bound-to-disclosure", jsonOnly, icm, exI)
		c.out("prooflist", "issuance+disclosure", jsonOnly, &pl3,
			Op{"keys": []string{kb.id, kr.id}, "context": hx(ctx), "nonce": hx(nonce), "issig": false})
	}

	// ---- revocation messages
	{
		exW := Op{"keys": keysR}
		cpSacc := func(s *revocation.SignedAccumulator) *revocation.SignedAccumulator {
			return &revocation.SignedAccumulator{Data: append([]byte{}, s.Data...), PKCounter: s.PKCounter}
		}
		c.out("witness", "fresh", both, witness, exW)
		c.out("witness", "tampered-u", both, &revocation.Witness{U: inc(witness.U), E: witness.E, SignedAccumulator: cpSacc(witness.SignedAccumulator), Updated: witness.Updated}, exW)
		c.out("witness", "tampered-e", both, &revocation.Witness{U: witness.U, E: inc(witness.E), SignedAccumulator: cpSacc(witness.SignedAccumulator), Updated: witness.Updated}, exW)

		exA := Op{"keys": keysR, "accIndex": int(acc0.Index), "accNu": hx(acc0.Nu)}
		c.out("sacc", "fresh", both, cpSacc(update0.SignedAccumulator), exA)
		badA := cpSacc(update0.SignedAccumulator)
		badA.Data[len(badA.Data)/2] ^= 1
		c.out("sacc", "tampered-data", both, badA, exA)
		badA2 := cpSacc(update0.SignedAccumulator)
		badA2.PKCounter++
		c.out("sacc", "wrong-counter", both, badA2, exA)

		// a chain of removals
		nev := []int{1, 2, 3, 8}
		if thorough {
			nev = append(nev, 20)
		}
		for _, n := range nev {
			upd := must(revocation.NewAccumulator(kr.sk))
			acc := must(upd.SignedAccumulator.UnmarshalVerify(kr.pk))
			evs := []*revocation.Event{upd.Events[0]}
			for len(evs) < n {
				w := must(revocation.RandomWitness(kr.sk, acc))
				var ev *revocation.Event
				var err error
				acc, ev, err = acc.Remove(kr.sk, w.E, evs[len(evs)-1])
				if err != nil {
					panic(err)
				}
				evs = append(evs, ev)
			}
			full := must(revocation.NewUpdate(kr.sk, acc, evs))
			// windows of the chain: the whole chain, a suffix (first index > 0), no events at all
			type win struct {
				name string
				evs  []*revocation.Event
			}
			wins := []win{{"all", evs}}
			if n > 2 {
				wins = append(wins, win{"suffix", evs[n/2:]})
			}
			wins = append(wins, win{"empty", []*revocation.Event{}})
			for _, w := range wins {
				class := fmt.Sprintf("n=%d,%s", n, w.name)
				sacc := func() *revocation.SignedAccumulator { return cpSacc(full.SignedAccumulator) }
				ex := Op{"keys": keysR, "sacc": sacc()}
				cp := func(es []*revocation.Event) []*revocation.Event {
					r := make([]*revocation.Event, len(es))
					for i, e := range es {
						r[i] = &revocation.Event{Index: e.Index, E: new(big.Int).Set(e.E), ParentHash: append(revocation.Hash{}, e.ParentHash...)}
					}
					return r
				}
				c.out("update", class, both, &revocation.Update{SignedAccumulator: sacc(), Events: cp(w.evs)}, ex)
				c.out("eventlist", class, both, &evl{revocation.NewEventList(cp(w.evs)...), sacc()}, ex)
				if len(w.evs) == 0 {
					continue
				}
				// invalid in the transported data: a changed E, a shifted first index, a changed first parent hash
				mut := func(name string, f func(es []*revocation.Event)) {
					es := cp(w.evs)
					f(es)
					c.out("update", class+","+name, both, &revocation.Update{SignedAccumulator: sacc(), Events: es}, ex)
					c.out("eventlist", class+","+name, both, &evl{revocation.NewEventList(cp(es)...), sacc()}, ex)
				}
				mut("tampered-e", func(es []*revocation.Event) { es[len(es)/2].E = inc(es[len(es)/2].E) })
				mut("tampered-last-e", func(es []*revocation.Event) { es[len(es)-1].E = inc(es[len(es)-1].E) })
				mut("shifted-index", func(es []*revocation.Event) {
					for _, e := range es {
						e.Index++
					}
				})
				mut("tampered-first-parent", func(es []*revocation.Event) {
					h := append(revocation.Hash{}, es[0].ParentHash...)
					h[len(h)-1] ^= 1
					es[0].ParentHash = h
				})
			}
		}
	}

	// ---- keyshare protocol messages
	{
		kssSecret := must(gabi.NewKeyshareSecret())
		userSecret := must(gabi.GenerateSecretAttribute())
		for _, variant := range []string{"disclosure", "disclosure-nonrev-range", "issuance", "double"} {
			mk := func(kp *KeyPair, nonrev bool, stmts map[int][]*rangeproof.Statement) gabi.ProofBuilder {
				var w *revocation.Witness
				if nonrev {
					w = witness
				}
				ksP := new(big.Int).Exp(kp.pk.R[0], kssSecret, kp.pk.N)
				is := issue(kp, userSecret, randAttrs(g, 4, true), w, ksP, nil)
				return must(is.cred.CreateDisclosureProofBuilder([]int{1}, stmts, nonrev))
			}
			var builders gabi.ProofBuilderList
			keys := []*gabikeys.PublicKey{}
			switch variant {
			case "disclosure":
				builders = gabi.ProofBuilderList{mk(kb, false, nil)}
			case "disclosure-nonrev-range":
				st := must(rangeproof.NewStatement(rangeproof.GreaterOrEqual, bi(1)))
				builders = gabi.ProofBuilderList{mk(kr, true, map[int][]*rangeproof.Statement{2: {st}})}
			case "issuance":
				ksP := new(big.Int).Exp(kb.pk.R[0], kssSecret, kb.pk.N)
				builders = gabi.ProofBuilderList{must(gabi.NewCredentialBuilder(kb.pk, bi(1), userSecret, rnd(80), ksP, nil))}
			case "double":
				builders = gabi.ProofBuilderList{mk(kb, false, nil), mk(kr, false, nil)}
			}
			km := map[string]*gabikeys.PublicKey{}
			var ids []string
			for _, b := range builders {
				keys = append(keys, b.PublicKey())
				if km[b.PublicKey().Issuer] == nil {
					ids = append(ids, b.PublicKey().Issuer)
				}
				km[b.PublicKey().Issuer] = b.PublicKey()
			}
			sort.Strings(ids)
			nonce := must(gabi.GenerateNonce())
			ctx := bi(1)
			userRandomizer := rnd(gabikeys.DefaultSystemParameters[1024].LmCommit)
			randomizers := map[string]*big.Int{"secretkey": userRandomizer}
			commReq, hashInput, err := gabi.KeyshareUserCommitmentRequest(builders, randomizers, km)
			if err != nil {
				panic(err)
			}
			kssRandomizer, kssComm, err := gabi.NewKeyshareCommitments(kssSecret, keys)
			if err != nil {
				panic(err)
			}
			for i, b := range builders {
				b.SetProofPCommitment(kssComm[i])
			}
			issig := g.coin()
			respReq, challenge, err := gabi.KeyshareUserResponseRequest(builders, randomizers, hashInput, ctx, nonce, issig)
			if err != nil {
				panic(err)
			}
			pair := kssPair{Comm: commReq, Resp: respReq}
			ex := Op{"keys": ids, "kssSecret": hx(kssSecret), "kssRandomizer": hx(kssRandomizer), "challenge": hx(challenge)}
			c.out("kss", variant, jsonOnly, &pair, ex)
			bad := pair
			bad.Comm.HashedUserCommitments = append([]byte{}, commReq.HashedUserCommitments...)
			bad.Comm.HashedUserCommitments[3] ^= 1
			c.out("kss", variant+"-tampered-hash", jsonOnly, &bad, ex)
			proofP, err := gabi.KeyshareResponse(kssSecret, kssRandomizer, commReq, respReq, km)
			if err == nil {
				c.out("proofp", variant, both, proofP, Op{"keys": ids})
			}
			c.out("proofpcommit", variant, both, kssComm[0], Op{"keys": ids})
		}
	}
	_ = os.Stderr
}

var c18SquaresOnce sync.Once
var c18SquaresTab *rangeproof.SquaresTable

func c18Squares() *rangeproof.SquaresTable {
	c18SquaresOnce.Do(func() { c18SquaresTab = rangeproof.GenerateSquaresTable(65535) })
	return c18SquaresTab
}
