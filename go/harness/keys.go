package main

import (
	crand "crypto/rand"
	_ "embed"
	"encoding/json"
	"fmt"
	"strconv"
	"sync"
	"time"

	"github.com/privacybydesign/gabi/big"
	"github.com/privacybydesign/gabi/gabikeys"
)

//go:embed testdata/xmlPrivKey1.xml
var xmlPrivKey1 string

//go:embed testdata/xmlPubKey1.xml
var xmlPubKey1 string

//go:embed testdata/xmlPrivKey2.xml
var xmlPrivKey2 string

//go:embed testdata/xmlPubKey2.xml
var xmlPubKey2 string

//go:embed testdata/pk2048.xml
var xmlPub2048 string

//go:embed testdata/sk2048.xml
var xmlPriv2048 string

type KeyPair struct {
	id string
	sk *gabikeys.PrivateKey
	pk *gabikeys.PublicKey
}

func init() {
	// toy parameters of the test-suite (gabi_test.go:TestGenerateKeyPair)
	base := gabikeys.BaseParameters{LePrime: 120, Lh: 256, Lm: 256, Ln: 256, Lstatzk: 80}
	gabikeys.DefaultSystemParameters[256] = &gabikeys.SystemParameters{
		BaseParameters:    base,
		DerivedParameters: gabikeys.MakeDerivedParameters(base),
	}
}

var keyCache sync.Map

func must[T any](v T, err error) T {
	if err != nil {
		panic(err)
	}
	return v
}

// fixedKey loads one of the committed key pairs: "k1024a", "k1024b", "k2048".
func fixedKey(id string, revocation bool) *KeyPair {
	ck := fmt.Sprintf("%s/%v", id, revocation)
	if v, ok := keyCache.Load(ck); ok {
		return v.(*KeyPair)
	}
	var skx, pkx string
	switch id {
	case "k1024a":
		skx, pkx = xmlPrivKey1, xmlPubKey1
	case "k1024b":
		skx, pkx = xmlPrivKey2, xmlPubKey2
	case "k2048":
		skx, pkx = xmlPriv2048, xmlPub2048
	default:
		panic("unknown key " + id)
	}
	sk := must(gabikeys.NewPrivateKeyFromXML(skx, false))
	pk := must(gabikeys.NewPublicKeyFromXML(pkx))
	if !revocation && id == "k2048" {
		// strip the revocation part
		sk.ECDSA, sk.ECDSAString = nil, ""
		pk.ECDSA, pk.ECDSAString, pk.G, pk.H = nil, "", nil, nil
	}
	if revocation && !pk.RevocationSupported() {
		if err := gabikeys.GenerateRevocationKeypair(sk, pk); err != nil {
			panic(err)
		}
	}
	pk.Issuer = id
	kp := &KeyPair{id: id, sk: sk, pk: pk}
	if revocation {
		kp.id = id + "r"
		pk.Issuer = kp.id
	}
	keyCache.Store(ck, kp)
	return kp
}

// toyKey generates a fresh 256-bit key pair with nattr bases (fast).
func toyKey(id string, nattr int) *KeyPair {
	sk, pk, err := gabikeys.GenerateKeyPair(gabikeys.DefaultSystemParameters[256], nattr, 0, time.Unix(2000000000, 0))
	if err != nil {
		panic(err)
	}
	pk.Issuer = id
	return &KeyPair{id: id, sk: sk, pk: pk}
}

func paramsOp(p *gabikeys.SystemParameters) map[string]any {
	if p == nil {
		return nil
	}
	return map[string]any{
		"LePrime": p.LePrime, "Lh": p.Lh, "Lm": p.Lm, "Ln": p.Ln, "Lstatzk": p.Lstatzk,
		"Le": p.Le, "LeCommit": p.LeCommit, "LmCommit": p.LmCommit, "LRA": p.LRA, "LsCommit": p.LsCommit,
		"Lv": p.Lv, "LvCommit": p.LvCommit, "LvPrime": p.LvPrime, "LvPrimeCommit": p.LvPrimeCommit,
	}
}

// declKey announces a public key to both sides (decl-* ops carry state for later lines).
func declKey(kp *KeyPair) Op {
	pk := kp.pk
	return Op{"op": "decl-key", "class": "decl", "id": kp.id, "n": hx(pk.N), "Z": hx(pk.Z), "S": hx(pk.S), "G": hx(pk.G), "H": hx(pk.H),
		"R": hxs(pk.R), "counter": int(pk.Counter), "ecdsa": pk.ECDSAString, "issuer": pk.Issuer, "params": paramsOp(pk.Params),
		"nbits": pk.N.BitLen(), "custom": pk.Params != nil && pk.Params != gabikeys.DefaultSystemParameters[pk.N.BitLen()]}
}

// declSk announces the private key (only for ops in which the real code must act as issuer).
func declSk(kp *KeyPair) Op {
	sk := kp.sk
	return Op{"op": "decl-sk", "class": "decl", "id": kp.id, "p": hx(sk.P), "q": hx(sk.Q), "pPrime": hx(sk.PPrime), "qPrime": hx(sk.QPrime),
		"ecdsa": sk.ECDSAString, "counter": int(sk.Counter)}
}

var execKeys = map[string]*KeyPair{}

func init() {
	executors["decl-key"] = func(o Op) string {
		id := o.str("id")
		pk, err := gabikeys.NewPublicKey(unhx(o["n"]), unhx(o["Z"]), unhx(o["S"]), unhx(o["G"]), unhx(o["H"]), unhxs(o["R"]),
			o.str("ecdsa"), uint(o.int("counter")), time.Unix(2000000000, 0))
		if err != nil {
			return "err"
		}
		pk.Issuer = o.str("issuer")
		if (pk.Params == nil || o.boolean("custom")) && o["params"] != nil {
			// parameter sets not in the default table are re-installed from the declaration
			pm := o["params"].(map[string]any)
			u := func(k string) uint { n, _ := pm[k].(json.Number).Int64(); return uint(n) }
			b := gabikeys.BaseParameters{LePrime: u("LePrime"), Lh: u("Lh"), Lm: u("Lm"), Ln: u("Ln"), Lstatzk: u("Lstatzk")}
			pk.Params = &gabikeys.SystemParameters{BaseParameters: b, DerivedParameters: gabikeys.MakeDerivedParameters(b)}
		}
		kp := execKeys[id]
		if kp == nil {
			kp = &KeyPair{id: id}
			execKeys[id] = kp
		}
		kp.pk = pk
		return "ok"
	}
	executors["decl-sk"] = func(o Op) string {
		id := o.str("id")
		sk, err := gabikeys.NewPrivateKey(unhx(o["p"]), unhx(o["q"]), o.str("ecdsa"), uint(o.int("counter")), time.Unix(2000000000, 0))
		if err != nil {
			return "err"
		}
		kp := execKeys[id]
		if kp == nil {
			kp = &KeyPair{id: id}
			execKeys[id] = kp
		}
		kp.sk = sk
		return "ok"
	}
}

func execKey(id string) *KeyPair {
	kp := execKeys[id]
	if kp == nil {
		panic("undeclared key " + id)
	}
	return kp
}

// boundary-sized attribute values relative to Lm
func attrValue(g *Rng, lm uint) *big.Int {
	switch g.intn(9) {
	case 0:
		return bi(0)
	case 1:
		return bi(1)
	case 2: // 2^Lm - 1
		x := new(big.Int).Lsh(bi(1), lm)
		return x.Sub(x, bi(1))
	case 3: // 2^Lm : first hashed value
		return new(big.Int).Lsh(bi(1), lm)
	case 4: // much larger
		return g.exactBits(int(lm) + 1 + g.intn(2000))
	case 5:
		return g.exactBits(int(lm))
	default:
		return g.bits(1 + g.intn(int(lm)))
	}
}

// key4096 builds a key pair with a 4096-bit modulus, the only default parameter set in which the
// message length differs from the hash length (Lm = 512, Lh = 256). The factors are random primes
// (not safe primes: searching those takes minutes); signing, issuance and verification only need
// the group order p'q' to be coprime to the signature exponents, which the signer checks.
func key4096(id string, nattr int) *KeyPair {
	ck := fmt.Sprintf("%s/4096/%d", id, nattr)
	if v, ok := keyCache.Load(ck); ok {
		return v.(*KeyPair)
	}
	prime := func() *big.Int {
		for {
			p := must(crand.Prime(crand.Reader, 2048))
			if p.Bit(1) == 1 { // p = 3 mod 4
				return new(big.Int).SetBytes(p.Bytes())
			}
		}
	}
	var p, q *big.Int
	for {
		p, q = prime(), prime()
		if new(big.Int).Mul(p, q).BitLen() == 4096 && p.Cmp(q) != 0 {
			break
		}
	}
	sk := must(gabikeys.NewPrivateKey(p, q, "", 0, time.Unix(2000000000, 0)))
	n := sk.N
	rnd := func(bits int) *big.Int {
		b := make([]byte, bits/8)
		crand.Read(b)
		return new(big.Int).SetBytes(b)
	}
	s := rnd(4090)
	s.Mul(s, s).Mod(s, n)
	z := new(big.Int).Exp(s, rnd(4000), n)
	var rs []*big.Int
	for i := 0; i <= nattr; i++ {
		rs = append(rs, new(big.Int).Exp(s, rnd(4000), n))
	}
	pk := must(gabikeys.NewPublicKey(n, z, s, nil, nil, rs, "", 0, time.Unix(2000000000, 0)))
	if pk.Params == nil || pk.Params.Lm == pk.Params.Lh {
		panic("key4096: unexpected parameters")
	}
	pk.Issuer = id
	kp := &KeyPair{id: id, sk: sk, pk: pk}
	keyCache.Store(ck, kp)
	return kp
}

// rotatedKey returns the key material of `material` published under the issuer name of `base`
// with another key counter: two keys of one issuer, as after a key rotation.
func rotatedKey(base, material *KeyPair, counter uint) *KeyPair {
	pk2, sk2 := *material.pk, *material.sk
	pk2.Issuer, pk2.Counter, sk2.Counter = base.pk.Issuer, counter, counter
	return &KeyPair{id: fmt.Sprintf("%s#%d", base.id, counter), sk: &sk2, pk: &pk2}
}

// toyKeyWith generates a 256-bit key pair whose parameter set differs from the shipped ones in
// the length of the prime exponent interval (LePrime): byte-aligned and unaligned lengths.
func toyKeyWith(id string, nattr int, lePrime uint) *KeyPair {
	base := gabikeys.BaseParameters{LePrime: lePrime, Lh: 256, Lm: 256, Ln: 256, Lstatzk: 80}
	params := &gabikeys.SystemParameters{BaseParameters: base, DerivedParameters: gabikeys.MakeDerivedParameters(base)}
	sk, pk, err := gabikeys.GenerateKeyPair(params, nattr, 0, time.Unix(2000000000, 0))
	if err != nil {
		panic(err)
	}
	pk.Issuer = id
	return &KeyPair{id: id, sk: sk, pk: pk}
}

// wideKey: the key pair `base` with its list of attribute bases extended to n bases
// (R_i = S^x_i for fresh x_i): credentials with more than 64 attributes.
func wideKey(base *KeyPair, n int) *KeyPair {
	ck := fmt.Sprintf("%s/wide/%d", base.id, n)
	if v, ok := keyCache.Load(ck); ok {
		return v.(*KeyPair)
	}
	pk2, sk2 := *base.pk, *base.sk
	pk2.R = append([]*big.Int{}, base.pk.R...)
	for len(pk2.R) < n {
		b := make([]byte, 64)
		crand.Read(b)
		pk2.R = append(pk2.R, new(big.Int).Exp(base.pk.S, new(big.Int).SetBytes(b), base.pk.N))
	}
	kp := &KeyPair{id: fmt.Sprintf("%sw%d", base.id, n), sk: &sk2, pk: &pk2}
	keyCache.Store(ck, kp)
	return kp
}

// highIndexSplitOps: a credential with more attributes than a machine word has bits; an index at
// and beyond 64 both disclosed (x) and hidden (response - c*x), and a range proof there: refused
// exactly like at small indices.
func highIndexSplitOps(g *Rng, base *KeyPair, fkey string) []Op {
	kp := wideKey(base, 68)
	pk := kp.pk
	attrs := make([]*big.Int, 66)
	for i := range attrs {
		attrs[i] = g.bits(40)
	}
	cred := issueCred(kp, randSecret(g), attrs)
	ctx, nonce := g.bits(256), g.bits(80)
	p, err := cred.CreateDisclosureProof([]int{1}, nil, false, ctx, nonce)
	if err != nil {
		panic(err)
	}
	tree := proofDTree(p)
	ops := []Op{declKey(kp), verifyDOp(kp.id, tree, ctx, nonce, false, "many-attributes-honest", "accept")}
	for _, j := range []int{2, 63, 64, 65, 66} {
		for _, x := range []*big.Int{bi(0), bi(1), new(big.Int).Add(cred.Attributes[j], bi(1))} {
			rem := new(big.Int).Sub(p.AResponses[j], new(big.Int).Mul(p.C, expOf(pk.Params.Lm, x)))
			if rem.Sign() < 0 {
				continue
			}
			t2 := cloneTree(tree).(T)
			t2["a_disclosed"].(T)[strconv.Itoa(j)] = I(x)
			t2["a_responses"].(T)[strconv.Itoa(j)] = I(rem)
			ops = append(ops, verifyDOp(kp.id, t2, ctx, nonce, false, fmt.Sprintf("split-at-index-%d", j), "reject").with("fkey", fkey))
		}
		t3 := cloneTree(tree).(T)
		t3["a_disclosed"].(T)[strconv.Itoa(j)] = I(cred.Attributes[j])
		ops = append(ops, verifyDOp(kp.id, t3, ctx, nonce, false, fmt.Sprintf("both-ways-at-index-%d", j), "reject").with("fkey", fkey))
	}
	return ops
}

// shortRevKey: a key pair (with revocation keys) of the given modulus length; parameters as for
// the 256-bit toy set.
func shortRevKey(id string, ln uint) *KeyPair {
	ck := fmt.Sprintf("%s/short/%d", id, ln)
	if v, ok := keyCache.Load(ck); ok {
		return v.(*KeyPair)
	}
	base := gabikeys.BaseParameters{LePrime: 120, Lh: 256, Lm: 256, Ln: ln, Lstatzk: 80}
	params := &gabikeys.SystemParameters{BaseParameters: base, DerivedParameters: gabikeys.MakeDerivedParameters(base)}
	sk, pk, err := gabikeys.GenerateKeyPair(params, 2, 0, time.Unix(2000000000, 0))
	if err != nil {
		panic(err)
	}
	pk.Issuer = id
	kp := &KeyPair{id: id, sk: sk, pk: pk}
	keyCache.Store(ck, kp)
	return kp
}
