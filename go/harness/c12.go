package main

import (
	"fmt"
	"strconv"

	"github.com/privacybydesign/gabi"
	"github.com/privacybydesign/gabi/big"
	"github.com/privacybydesign/gabi/rangeproof"
)

// C12: range proofs never establish a false inequality.
// C13: every true supported inequality is provable.

func mkRangeProof(ncs int, sign int, a uint64, k *big.Int) *rangeproof.Proof {
	cs := make([]*big.Int, ncs)
	for i := range cs {
		cs[i] = bi(1)
	}
	return &rangeproof.Proof{Cs: cs, Sign: sign, A: uint(a), K: k}
}

func init() {
	generators["C12"] = genC12
	generators["C13"] = genC13
	executors["rp-proves"] = func(o Op) string {
		p := mkRangeProof(o.int("ncs"), int(unhx(o["sign"]).Int64()), unhx(o["a"]).Uint64(), unhx(o["k"]))
		return fmt.Sprint(p.ProvesStatement(int(unhx(o["qsign"]).Int64()), uint(unhx(o["qfactor"]).Uint64()), unhx(o["qbound"])))
	}
	executors["rp-proven"] = func(o Op) string {
		p := mkRangeProof(o.int("ncs"), int(unhx(o["sign"]).Int64()), unhx(o["a"]).Uint64(), unhx(o["k"]))
		if o["extractkey"] != nil {
			// only descriptors ExtractStructure lets through can belong to a verified proof
			if _, err := p.ExtractStructure(1, execKey(o.str("extractkey")).pk); err != nil {
				return "turned-away"
			}
		}
		typ, f, b := p.ProvenStatement()
		s, _ := typ.Sign()
		if p.Sign != 1 && p.Sign != -1 {
			s = p.Sign // the library reports GreaterOrEqual for anything else; only ±1 occur in verified proofs
		}
		// what is reported must follow from what the verified proof establishes, sign*(A*m - K) >= 0,
		// for every attribute value (checked on the box the generator draws K from)
		verdict := "sound"
		if b.IsInt64() && (p.Sign == 1 || p.Sign == -1) {
			for m := int64(0); m <= 96; m++ {
				if stmtHolds(int64(p.Sign), int64(p.A), p.K.Int64(), m) && !stmtHolds(int64(s), int64(f), b.Int64(), m) {
					verdict = "unsound"
				}
			}
		}
		return fmt.Sprintf("%s %d %d %s", verdict, s, f, showInt(b))
	}
	executors["rp-complete"] = func(o Op) string {
		kp := execKey(o.str("key"))
		m := unhx(o["m"])
		// layout: the credential has `nattr` attributes (default 2), the statement is about attribute
		// `idx` (default 1), the attributes in `disclosed` (default [2]) are disclosed
		nattr, idx, disclosed := 2, 1, []int{2}
		if o["nattr"] != nil {
			nattr, idx, disclosed = o.int("nattr"), o.int("idx"), intsOf(o["disclosed"])
		}
		attrs := make([]*big.Int, nattr)
		for i := range attrs {
			attrs[i] = bi(int64(5 + i))
		}
		attrs[idx-1] = m
		cred := issueCred(kp, unhx(o["secret"]), attrs)
		st := &rangeproof.Statement{Sign: int(unhx(o["sign"]).Int64()), Factor: uint(unhx(o["factor"]).Uint64()), Bound: unhx(o["bound"])}
		if n := o.int("table"); n > 0 {
			st.Splitter = squaresTable(int64(n - 1))
		}
		ctx, nonce := bi(7), bi(9)
		proof, err := cred.CreateDisclosureProof(disclosed, map[int][]*rangeproof.Statement{idx: {st}}, false, ctx, nonce)
		if err != nil {
			return "err"
		}
		// through the wire format, as a verifier receives it
		v := executors["verifyD"](Op{"proof": any(map[string]any(proofDTree(proof))), "key": o["key"], "context": hx(ctx), "nonce": hx(nonce), "issig": false})
		if v != "accept" {
			return "built-but-" + v
		}
		if !proof.RangeProofs[idx][0].Proves(st) {
			return "built-but-not-reported"
		}
		// the verifier asks with its own copy of the statement (how the prover split the slack is
		// no part of it), and for what the statement implies
		vst := &rangeproof.Statement{Sign: st.Sign, Factor: st.Factor, Bound: new(big.Int).Set(st.Bound)}
		if !proof.RangeProofs[idx][0].Proves(vst) {
			return "built-but-not-reported-to-the-verifier"
		}
		weaker := &rangeproof.Statement{Sign: st.Sign, Factor: st.Factor, Bound: new(big.Int).Sub(st.Bound, bi(int64(st.Sign)))}
		if !proof.RangeProofs[idx][0].Proves(weaker) {
			return "built-but-implied-statement-not-reported"
		}
		if pst, _ := squaresTableStatement(vst); pst != nil && !proof.RangeProofs[idx][0].Proves(pst) {
			return "built-but-not-reported-for-a-statement-naming-a-table"
		}
		return "ok accept proves"
	}
}

func init() {
	// several statements in one proof, on different hidden attributes (and more than one on some);
	// repeated, since a prover may order its work differently from run to run
	executors["rp-complete-multi"] = func(o Op) string {
		kp := execKey(o.str("key"))
		nattr := o.int("nattr")
		attrs := make([]*big.Int, nattr)
		for i := range attrs {
			attrs[i] = bi(int64(5 + i))
		}
		type stmt struct {
			idx int
			st  *rangeproof.Statement
		}
		var stmts []stmt
		for _, e := range o["stmts"].([]any) {
			f := e.([]any)
			idx := int(unhx(f[0]).Int64())
			attrs[idx-1] = unhx(f[1])
			st := &rangeproof.Statement{Sign: int(unhx(f[2]).Int64()), Factor: uint(unhx(f[3]).Uint64()), Bound: unhx(f[4])}
			if n := unhx(f[5]).Int64(); n > 0 {
				st.Splitter = squaresTable(n - 1)
			}
			stmts = append(stmts, stmt{idx, st})
		}
		cred := issueCred(kp, unhx(o["secret"]), attrs)
		for rep := 0; rep < o.int("reps"); rep++ {
			m := map[int][]*rangeproof.Statement{}
			for _, s := range stmts {
				m[s.idx] = append(m[s.idx], s.st)
			}
			ctx, nonce := bi(int64(7+rep)), bi(9)
			proof, err := cred.CreateDisclosureProof(intsOf(o["disclosed"]), m, false, ctx, nonce)
			if err != nil {
				return fmt.Sprintf("err at repetition %d", rep)
			}
			v := executors["verifyD"](Op{"proof": any(map[string]any(proofDTree(proof))), "key": o["key"], "context": hx(ctx), "nonce": hx(nonce), "issig": false})
			if v != "accept" {
				return fmt.Sprintf("built-but-%s at repetition %d", v, rep)
			}
			for idx, sts := range m {
				for i, st := range sts {
					if !proof.RangeProofs[idx][i].Proves(st) {
						return "built-but-not-reported"
					}
				}
			}
		}
		return "ok"
	}
}

// squaresTableStatement: the same statement as a prover with a (small) table would hold it
func squaresTableStatement(st *rangeproof.Statement) (*rangeproof.Statement, error) {
	return &rangeproof.Statement{Sign: st.Sign, Factor: st.Factor, Bound: st.Bound, Splitter: squaresTable(40)}, nil
}

func init() {
	// the holder recycles its statement object after the builder has been made (adjusts the bound
	// for the next disclosure): the proof is for the statement the builder was created with
	executors["rp-statement-recycled"] = func(o Op) string {
		kp := execKey(o.str("key"))
		m := unhx(o["m"])
		cred := issueCred(kp, unhx(o["secret"]), []*big.Int{m, bi(6)})
		st := &rangeproof.Statement{Sign: int(unhx(o["sign"]).Int64()), Factor: 1, Bound: unhx(o["bound"])}
		if n := o.int("table"); n > 0 {
			st.Splitter = squaresTable(int64(n - 1))
		}
		orig := &rangeproof.Statement{Sign: st.Sign, Factor: st.Factor, Bound: new(big.Int).Set(st.Bound)}
		b, err := cred.CreateDisclosureProofBuilder([]int{2}, map[int][]*rangeproof.Statement{1: {st}}, false)
		if err != nil {
			return "err"
		}
		st.Bound.Sub(st.Bound, bi(int64(st.Sign)*unhx(o["shift"]).Int64())) // still true, another statement
		ctx, nonce := bi(7), bi(9)
		pl, err := gabi.ProofBuilderList{b}.BuildProofList(ctx, nonce, false)
		if err != nil {
			return "err"
		}
		proof := pl[0].(*gabi.ProofD)
		v := executors["verifyD"](Op{"proof": any(map[string]any(proofDTree(proof))), "key": o["key"], "context": hx(ctx), "nonce": hx(nonce), "issig": false})
		if v != "accept" {
			return "built-but-" + v
		}
		if !proof.RangeProofs[1][0].Proves(orig) {
			return "built-for-another-statement"
		}
		return "ok"
	}
}

var tables = map[int64]*rangeproof.SquaresTable{}

func squaresTable(limit int64) *rangeproof.SquaresTable {
	if t, ok := tables[limit]; ok {
		return t
	}
	t := rangeproof.GenerateSquaresTable(limit)
	tables[limit] = t
	return t
}

// holds: integer semantics of sign*(factor*m - bound) >= 0
func stmtHolds(sign, factor, bound, m int64) bool {
	d := factor*m - bound
	if sign == 1 {
		return d >= 0
	}
	return d <= 0
}

func genC12(g *Rng, tier string, emit func(Op)) {
	kp := fixedKey("k1024a", false)
	kb := fixedKey("k1024b", false)
	emit(declKey(kp))
	emit(declKey(kb))
	box := int64(24)
	krange := int64(10)
	if tier == "thorough" {
		krange = 20
	}
	// (1) the implication logic: for a verified proof with descriptor (sign, A, K, #squares) the
	// established fact is sign*(A*m - K) >= 0. Whatever ProvesStatement / ProvenStatement report must
	// follow from it for every attribute value in the box.
	// three squares: every factor the descriptor can carry is either turned away by the verifier or
	// reported soundly
	for _, sign := range []int64{1, -1} {
		for a := int64(0); a <= 9; a++ {
			for k := -krange; k <= krange; k++ {
				emit(Op{"op": "rp-proven", "class": "proven-if-extractable", "label": "sound|turned-away", "fkey": "C12/three-square-factor-extractable",
					"extractkey": kp.id, "ncs": 3, "sign": hxi(sign), "a": hxi(a), "k": hxi(k)})
			}
		}
	}
	for _, ncs := range []int{4, 3} {
		as := []int64{0, 1, 2, 3, 4, 7, 8}
		if ncs == 3 {
			as = []int64{4} // the verifier (ExtractStructure) admits only A = 4 with three squares
		}
		for _, sign := range []int64{1, -1} {
			for _, a := range as {
				for k := -krange; k <= krange; k++ {
					// ProvenStatement
					emit(Op{"op": "rp-proven", "class": "proven", "label": "sound", "ncs": ncs, "sign": hxi(sign), "a": hxi(a), "k": hxi(k)})
					for _, qs := range []int64{1, -1} {
						for _, qf := range []int64{0, 1, 2, 3, 4} {
							for qb := -krange / 2; qb <= krange/2; qb++ {
								if tier != "thorough" && g.intn(3) != 0 {
									continue
								}
								implied := true
								for m := int64(0); m <= box*4; m++ {
									if stmtHolds(sign, a, k, m) && !stmtHolds(qs, qf, qb, m) {
										implied = false
									}
								}
								label := "true|false"
								if !implied {
									label = "false"
								}
								emit(Op{"op": "rp-proves", "class": "implication", "label": label, "ncs": ncs, "sign": hxi(sign), "a": hxi(a), "k": hxi(k),
									"qsign": hxi(qs), "qfactor": hxi(qf), "qbound": hxi(qb)})
							}
						}
					}
				}
			}
		}
	}
	// queried statements whose factor overflows when rescaled for three squares, odd signs
	for _, qf := range []string{"4000000000000001", "8000000000000001", "c000000000000001", "3fffffffffffffff", "4000000000000000"} {
		for _, k := range []int64{18, 2, -2} {
			for _, qs := range []int64{1, -1} {
				// proved: sign*(4m - k) >= 0 ; queried factor huge: for sign -1 the query is false for m >= 1
				label := "true|false"
				if qs == -1 {
					label = "false"
				}
				emit(Op{"op": "rp-proves", "class": "factor-overflow", "label": label, "fkey": "C12/proves-factor-wrap", "ncs": 3, "sign": hxi(qs), "a": hxi(4), "k": hxi(k),
					"qsign": hxi(qs), "qfactor": qf, "qbound": hxi((k + 2) / 4)})
			}
		}
	}
	for _, qs := range []int64{0, 2, -2, 3} {
		emit(Op{"op": "rp-proves", "class": "bad-sign", "label": "false", "ncs": 4, "sign": hxi(qs), "a": hxi(1), "k": hxi(3), "qsign": hxi(qs), "qfactor": hxi(1), "qbound": hxi(3)})
	}

	// (2) proofs inside disclosure proofs: transplants, alterations, edge descriptors
	nrounds := 2
	if tier == "thorough" {
		nrounds = 12
	}
	for r := 0; r < nrounds; r++ {
		pk := kp.pk
		m1, m2 := g.bits(40), g.bits(40)
		secret := randSecret(g)
		cred := issueCred(kp, secret, []*big.Int{m1, m2, g.bits(100)})
		cred2 := issueCred(kp, secret, []*big.Int{new(big.Int).Add(m1, bi(1000)), m2, g.bits(100)})
		credB := issueCred(kb, secret, []*big.Int{m1, m2, g.bits(100)})
		ctx, nonce := g.bits(256), g.bits(80)
		ge, _ := rangeproof.NewStatement(rangeproof.GreaterOrEqual, new(big.Int).Sub(m1, bi(int64(g.intn(50)))))
		le, _ := rangeproof.NewStatement(rangeproof.LesserOrEqual, new(big.Int).Add(m1, bi(int64(1+g.intn(50)))))
		if r%2 == 1 {
			le.Splitter = squaresTable(1000)
		}
		stm := map[int][]*rangeproof.Statement{1: {ge, le}}
		proof, err := cred.CreateDisclosureProof([]int{3}, stm, false, ctx, nonce)
		if err != nil {
			panic(err)
		}
		tree := proofDTree(proof)
		emit(verifyDOp(kp.id, tree, ctx, nonce, false, "rp-honest", "accept"))
		// a false statement cannot be built by the honest prover at all
		for _, delta := range []int64{1, 2, 1000} {
			bad, _ := rangeproof.NewStatement(rangeproof.GreaterOrEqual, new(big.Int).Add(m1, bi(delta)))
			_, err := cred.CreateDisclosureProof([]int{3}, map[int][]*rangeproof.Statement{1: {bad}}, false, ctx, nonce)
			res := "refused"
			if err == nil {
				res = "built"
			}
			emit(Op{"op": "recorded", "class": "false-statement-prover", "label": "refused", "nomodel": true, "result": res})
		}
		// false statements at the edges of the factor's range (the exponent arithmetic is 64 bit)
		for _, f := range []uint{1 << 63, 1<<63 - 1, 1<<63 + 1, 1 << 62, ^uint(0)} {
			for _, sign := range []int{1, -1} {
				// sign*(f*m - bound) >= 0 is false for bound = f*m + sign (one beyond the attribute)
				fm := new(big.Int).Mul(new(big.Int).SetUint64(uint64(f)), m1)
				for _, bound := range []*big.Int{new(big.Int).Add(fm, bi(int64(sign))), bi(0)} {
					d := new(big.Int).Sub(fm, bound)
					if sign == -1 {
						d.Neg(d)
					}
					if d.Sign() >= 0 {
						continue // true statement
					}
					st := &rangeproof.Statement{Sign: sign, Factor: f, Bound: bound}
					res := "refused"
					func() {
						defer func() {
							if recover() != nil {
								res = "refused" // a panic in the prover is not a proof
							}
						}()
						p, err := cred.CreateDisclosureProof([]int{3}, map[int][]*rangeproof.Statement{1: {st}}, false, ctx, nonce)
						if err == nil {
							res = "built-rejected"
							if p.Verify(pk, ctx, nonce, false) {
								res = "built-accepted"
							}
						}
					}()
					emit(Op{"op": "recorded", "class": "false-statement-prover-extreme-factor", "label": "refused|built-rejected", "nomodel": true, "result": res,
						"sign": sign, "factor": fmt.Sprint(f), "bound": hx(bound), "m": hx(m1)})
				}
			}
		}
		// every single-field alteration of the range proofs
		for _, lp := range leafPaths(tree) {
			if len(lp) == 0 || lp[0] != "rangeproofs" {
				continue
			}
			t2 := cloneTree(tree)
			setAt(t2, lp, I(new(big.Int).Add(leafInt(t2, lp), bi(1))))
			emit(verifyDOp(kp.id, t2, ctx, nonce, false, "rp-alter1", "reject"))
		}
		// descriptor alterations: the proof would then report a different (possibly false) statement
		rp0 := tree["rangeproofs"].(T)["1"].([]any)[0].(T)
		for _, alt := range []struct {
			name string
			f    func(t T)
		}{
			{"bound+1", func(t T) { t["k"] = I(new(big.Int).Add(unhx(t["k"].(T)["$i"]), bi(1))) }},
			{"bound-above-value", func(t T) { t["k"] = I(new(big.Int).Add(m1, bi(5))) }},
			{"sign-flipped", func(t T) { t["sign"] = -t["sign"].(int) }},
			{"sign-0", func(t T) { t["sign"] = 0 }},
			{"sign-2", func(t T) { t["sign"] = 2 }},
			{"factor-0", func(t T) { t["a"] = uint64(0) }},
			{"factor-2", func(t T) { t["a"] = uint64(2) }},
			{"factor-2^63", func(t T) { t["a"] = uint64(1) << 63 }},
			{"factor-2^64-1", func(t T) { t["a"] = ^uint64(0) }},
			{"ld-0", func(t T) { t["l_d"] = 0 }},
			{"ld-huge", func(t T) { t["l_d"] = 100000 }},
			{"k-huge", func(t T) { t["k"] = I(new(big.Int).Lsh(bi(1), 400)) }},
			{"drop-square", func(t T) { t["Cs"] = t["Cs"].([]any)[:3] }},
		} {
			t2 := cloneTree(tree).(T)
			alt.f(t2["rangeproofs"].(T)["1"].([]any)[0].(T))
			emit(verifyDOp(kp.id, t2, ctx, nonce, false, "rp-descriptor-"+alt.name, "reject"))
			// the same message decoded into an object that has just verified the honest one
			emit(verifyDOp(kp.id, t2, ctx, nonce, false, "rp-descriptor-"+alt.name+"-into-used-object", "reject").with("decode_after", cloneTree(tree)).with("fkey", "C12/decoded-into-used-object"))
		}
		_ = rp0
		// transplants: to another hidden index, to a disclosed index, to a non-existent index, to
		// another credential (same / different attribute value), under another key
		for _, target := range []string{"2", "3", "0", "4", "5", "17", "-1"} {
			t2 := cloneTree(tree).(T)
			rps := t2["rangeproofs"].(T)
			rps[target] = rps["1"]
			delete(rps, "1")
			label := "reject"
			emit(verifyDOp(kp.id, t2, ctx, nonce, false, "rp-moved-to-"+target, label).with("fkey", "C12/rangeproof-at-unchecked-index"))
			// and in addition to the honest ones (a carried but unverified range proof)
			t3 := cloneTree(tree).(T)
			t3["rangeproofs"].(T)[target] = cloneTree(rps[target])
			emit(verifyDOp(kp.id, t3, ctx, nonce, false, "rp-extra-at-"+target, "reject").with("fkey", "C12/rangeproof-at-unchecked-index"))
		}
		for ci, other := range []*gabi.Credential{cred2, credB} {
			okp := kp
			if ci == 1 {
				okp = kb
			}
			p2, err := other.CreateDisclosureProof([]int{3}, nil, false, ctx, nonce)
			if err != nil {
				panic(err)
			}
			t2 := proofDTree(p2)
			t2["rangeproofs"] = cloneTree(tree["rangeproofs"])
			emit(verifyDOp(okp.id, t2, ctx, nonce, false, "rp-transplanted-"+strconv.Itoa(ci), "reject"))
		}
		// int64 wrap-around of the factor: an honest proof of m >= -5 (sign 1, factor 1, K = -5) has
		// exactly the commitments of the descriptor (sign -1, factor 2^64-1, K = 5), which reports
		// the false statement (2^64-1)*m <= 5
		{
			neg := &rangeproof.Statement{Sign: 1, Factor: 1, Bound: bi(-5)}
			pw, err := cred.CreateDisclosureProof([]int{3}, map[int][]*rangeproof.Statement{1: {neg}}, false, ctx, nonce)
			if err == nil {
				tw := proofDTreeNegK(pw)
				d := tw["rangeproofs"].(T)["1"].([]any)[0].(T)
				d["k"], d["sign"], d["a"] = I(bi(5)), -1, ^uint64(0)
				emit(verifyDOp(kp.id, tw, ctx, nonce, false, "rp-factor-wrap-exploit", "reject").with("fkey", "C12/factor-wrap"))
			}
		}
		// forged range proof: all commitments C_i = 0 (or another non-unit) make every reconstructed
		// commitment 0 whatever the statement says; a holder without any witness for the statement
		// computes the challenge over zeros and attaches a proof of a FALSE inequality
		for _, cval := range []*big.Int{bi(0), new(big.Int).Set(pk.N)} {
			b, err := cred.CreateDisclosureProofBuilder([]int{3}, nil, false)
			if err != nil {
				panic(err)
			}
			contribs, err := b.Commit(map[string]*big.Int{"secretkey": g.bits(592)})
			if err != nil {
				panic(err)
			}
			zero := new(big.Int).Mod(cval, pk.N)
			falseBound := new(big.Int).Add(m1, bi(1000000000))
			// the statement (commitments and descriptor) is part of the hash since d9916c2
			contribs = append(contribs, cval, cval, cval, cval, falseBound, bi(1), bi(1), bi(8))
			for i := 0; i < 5; i++ {
				contribs = append(contribs, zero)
			}
			c := gabi.VerifCreateChallenge(ctx, nonce, contribs, false)
			fp := b.CreateProof(c).(*gabi.ProofD)
			tf := proofDTree(fp)
			tf["rangeproofs"] = T{"1": []any{T{"Cs": Is([]*big.Int{cval, cval, cval, cval}), "ds": Is([]*big.Int{bi(1), bi(1), bi(1), bi(1)}),
				"vs": Is([]*big.Int{bi(1), bi(1), bi(1), bi(1)}), "v5": I(bi(1)), "l_d": 8, "sign": 1, "a": uint64(1), "k": I(falseBound)}}}
			emit(verifyDOp(kp.id, tf, ctx, nonce, false, "rp-forged-nonunit-commitments", "reject").with("fkey", "C12/nonunit-commitments"))
		}
		// the descriptor of a range proof (K, factor, sign, l_d) and its commitments C_i are not part
		// of what is hashed into the challenge - only the reconstructed commitments are. A holder
		// fixes those first (T_0 = R^(E - r_m) for a huge E, T_i = R^x_i S^y_i), computes the
		// challenge c, and THEN chooses the square roots d_i (from E mod c), the C_i and the bound
		// K = m - sum d_i^2 + (E div c) > m that make everything reconstruct: a verifying proof of
		// the false statement m >= K. Needs nothing but the holder's own credential.
		for _, issig := range []bool{false, true} {
			b, err := cred.CreateDisclosureProofBuilder([]int{3}, nil, false)
			if err != nil {
				panic(err)
			}
			contribs, err := b.Commit(map[string]*big.Int{"secretkey": g.bits(592)})
			if err != nil {
				panic(err)
			}
			_, _, attrRand := b.VerifRandomizers()
			mrand := attrRand[1]
			R := pk.R[1]
			pow := func(bs, e *big.Int) *big.Int {
				if e.Sign() < 0 {
					return new(big.Int).Exp(new(big.Int).ModInverse(bs, pk.N), new(big.Int).Neg(e), pk.N)
				}
				return new(big.Int).Exp(bs, e, pk.N)
			}
			mulmod := func(x, y *big.Int) *big.Int { return new(big.Int).Mod(new(big.Int).Mul(x, y), pk.N) }
			xs := []*big.Int{new(big.Int).Lsh(bi(1), 128), bi(1), bi(0), bi(0)}
			ys, vs := make([]*big.Int, 4), make([]*big.Int, 4)
			for i := range ys {
				ys[i], vs[i] = g.bits(200), new(big.Int).Add(g.bits(100), bi(1))
			}
			E := g.exactBits(256 + 291)
			contribs = append(contribs, pow(R, new(big.Int).Sub(E, mrand)))
			for i := range xs {
				contribs = append(contribs, mulmod(pow(R, xs[i]), pow(pk.S, ys[i])))
			}
			c := gabi.VerifCreateChallenge(ctx, nonce, contribs, issig)
			r := new(big.Int).Mod(E, c)
			ds := []*big.Int{new(big.Int).Rsh(r, 128), new(big.Int).And(r, new(big.Int).Sub(xs[0], bi(1))), bi(0), bi(0)}
			tt := new(big.Int).Div(new(big.Int).Sub(E, r), c)
			k := new(big.Int).Sub(m1, new(big.Int).Add(new(big.Int).Mul(ds[0], ds[0]), new(big.Int).Mul(ds[1], ds[1])))
			k.Add(k, tt)
			if k.Cmp(m1) <= 0 {
				continue
			}
			var cs, dres, vres []*big.Int
			v5 := bi(0)
			for i := range xs {
				cs = append(cs, mulmod(pow(R, ds[i]), pow(pk.S, vs[i])))
				dr := new(big.Int).Add(xs[i], new(big.Int).Mul(c, ds[i]))
				dres = append(dres, dr)
				vres = append(vres, new(big.Int).Add(ys[i], new(big.Int).Mul(c, vs[i])))
				v5.Add(v5, new(big.Int).Mul(vs[i], dr))
			}
			fp := b.CreateProof(c).(*gabi.ProofD)
			tf := proofDTree(fp)
			tf["rangeproofs"] = T{"1": []any{T{"Cs": Is(cs), "ds": Is(dres), "vs": Is(vres), "v5": I(v5), "l_d": 128, "sign": 1, "a": uint64(1), "k": I(k)}}}
			emit(verifyDOp(kp.id, tf, ctx, nonce, issig, "rp-forged-descriptor-chosen-after-challenge", "reject").with("fkey", "C12/descriptor-not-in-challenge"))
		}
		// the same with ONE commitment that is no unit (0 or N) among honest ones, at every position:
		// the relation that links the squares to the attribute contains each C_i to a positive
		// power and collapses to 0 as well
		for _, cval := range []*big.Int{bi(0), new(big.Int).Set(pk.N)} {
			for j := 0; j < 4; j++ {
				b, err := cred.CreateDisclosureProofBuilder([]int{3}, nil, false)
				if err != nil {
					panic(err)
				}
				contribs, err := b.Commit(map[string]*big.Int{"secretkey": g.bits(592)})
				if err != nil {
					panic(err)
				}
				const ld = 128
				cs, ds, vs, dr, vr := make([]*big.Int, 4), make([]*big.Int, 4), make([]*big.Int, 4), make([]*big.Int, 4), make([]*big.Int, 4)
				rpc := []*big.Int{bi(0)}
				for i := 0; i < 4; i++ {
					ds[i], vs[i] = bi(int64(i+1)), g.bits(int(pk.Params.Lm))
					dr[i], vr[i] = g.bits(ld+int(pk.Params.Lh+pk.Params.Lstatzk)), g.bits(int(pk.Params.Lm+pk.Params.Lh+pk.Params.Lstatzk))
					cs[i] = new(big.Int).Exp(pk.R[1], ds[i], pk.N)
					cs[i].Mul(cs[i], new(big.Int).Exp(pk.S, vs[i], pk.N)).Mod(cs[i], pk.N)
					if i == j {
						cs[i] = new(big.Int).Set(cval)
						rpc = append(rpc, bi(0))
						continue
					}
					c := new(big.Int).Exp(pk.R[1], dr[i], pk.N)
					c.Mul(c, new(big.Int).Exp(pk.S, vr[i], pk.N)).Mod(c, pk.N)
					rpc = append(rpc, c)
				}
				falseBound := new(big.Int).Add(m1, bi(1000000000))
				stmt := append(append([]*big.Int{}, cs...), falseBound, bi(1), bi(1), bi(ld))
				c := gabi.VerifCreateChallenge(ctx, nonce, append(append(contribs, stmt...), rpc...), false)
				fp := b.CreateProof(c).(*gabi.ProofD)
				dres, vres := make([]*big.Int, 4), make([]*big.Int, 4)
				for i := 0; i < 4; i++ {
					dres[i] = new(big.Int).Add(new(big.Int).Mul(c, ds[i]), dr[i])
					vres[i] = new(big.Int).Add(new(big.Int).Mul(c, vs[i]), vr[i])
				}
				tf := proofDTree(fp)
				tf["rangeproofs"] = T{"1": []any{T{"Cs": Is(cs), "ds": Is(dres), "vs": Is(vres), "v5": I(bi(1)), "l_d": ld, "sign": 1, "a": uint64(1), "k": I(falseBound)}}}
				emit(verifyDOp(kp.id, tf, ctx, nonce, false, fmt.Sprintf("rp-forged-one-nonunit-commitment-%d", j), "reject").with("fkey", "C12/nonunit-commitments"))
			}
		}
		// a junk range proof attached to the highest hidden index of a proof that has a gap below it
		// (a disclosed attribute of value 0 is dropped: R^0 = 1): every carried range proof must
		// still be checked and hashed
		{
			gc := issueCred(kp, secret, []*big.Int{m1, bi(0), g.bits(90)})
			gp, err := gc.CreateDisclosureProof([]int{2}, nil, false, ctx, nonce)
			if err != nil {
				panic(err)
			}
			tg := proofDTree(gp)
			delete(tg["a_disclosed"].(T), "2")
			junk := cloneTree(tree["rangeproofs"].(T)["1"].([]any)[0]).(T)
			junk["k"] = I(new(big.Int).Add(gc.Attributes[3], bi(1))) // claims attribute 3 >= its value + 1
			junk["sign"], junk["a"] = 1, uint64(1)
			tg["rangeproofs"] = T{"3": []any{junk}}
			emit(verifyDOp(kp.id, tg, ctx, nonce, false, "rp-junk-above-gap", "reject").with("fkey", "C12/rangeproof-at-unchecked-index"))
		}
		// a junk range proof whose structure cannot even be extracted (l_d beyond the message
		// length), attached to an honest proof made without range statements: it must be refused,
		// and refused again when the verifier is asked a second time about the same object
		{
			pp, err := cred.CreateDisclosureProof([]int{3}, nil, false, ctx, nonce)
			if err != nil {
				panic(err)
			}
			tp := proofDTree(pp)
			junk := cloneTree(tree["rangeproofs"].(T)["1"].([]any)[0]).(T)
			junk["k"] = I(new(big.Int).Add(m1, bi(1000))) // claims attribute 1 >= its value + 1000
			junk["sign"], junk["a"], junk["l_d"] = 1, uint64(1), int(pk.Params.Lm)+1+g.intn(1000)
			tp["rangeproofs"] = T{"1": []any{junk}}
			emit(verifyDOp(kp.id, tp, ctx, nonce, false, "rp-junk-unextractable", "reject").with("fkey", "C12/structure-cache-after-error"))
			// one extractable (honest-looking) and one unextractable proof on two indices
			tq := cloneTree(tp).(T)
			tq["rangeproofs"].(T)["2"] = []any{cloneTree(junk)}
			emit(verifyDOp(kp.id, tq, ctx, nonce, false, "rp-junk-unextractable-2", "reject").with("fkey", "C12/structure-cache-after-error"))
		}
		// in memory the range proof object has a field for the response of m, which the wire form does
		// not carry (the verifier takes the attribute's own response): a range proof made for ANOTHER
		// value with its own randomiser, that field filled in by the forger
		{
			claim, _ := rangeproof.NewStatement(rangeproof.GreaterOrEqual, new(big.Int).Add(m1, bi(1000)))
			if ps, err := claim.ProofStructure(1); err == nil {
				fake := new(big.Int).Add(m1, bi(5000))
				contribs, commit, err := ps.CommitmentsFromSecrets(pk, fake, g.bits(int(pk.Params.LmCommit)-1))
				b, err2 := cred.CreateDisclosureProofBuilder([]int{3}, nil, false)
				if err == nil && err2 == nil {
					c0, err := b.Commit(map[string]*big.Int{"secretkey": g.bits(int(pk.Params.LmCommit) - 1)})
					if err != nil {
						panic(err)
					}
					c := gabi.VerifCreateChallenge(ctx, nonce, append(append([]*big.Int{}, c0...), contribs...), false)
					pd := b.CreateProof(c).(*gabi.ProofD)
					rp := ps.BuildProof(commit, c)
					pd.RangeProofs = map[int][]*rangeproof.Proof{1: {rp}}
					tm := proofDTree(pd)
					tm["rangeproofs"].(T)["1"].([]any)[0].(T)["m_response"] = I(rp.MResponse)
					emit(verifyDOp(kp.id, tm, ctx, nonce, false, "rp-own-m-response-in-memory", "reject").with("direct", true).with("fkey", "C12/own-m-response"))
				}
			}
		}
		// range proof removed: the remaining proof no longer matches its challenge
		t4 := cloneTree(tree).(T)
		delete(t4, "rangeproofs")
		emit(verifyDOp(kp.id, t4, ctx, nonce, false, "rp-removed", "reject"))
		_ = pk
	}
}

func init() {
	executors["recorded"] = func(o Op) string { return o.str("result") }
}

func init() {
	// the splitters alone (cheap): every difference in a dense range must be split into squares
	executors["rp-split"] = func(o Op) string {
		d := unhx(o["d"])
		var sp rangeproof.SquareSplitter = &rangeproof.FourSquaresSplitter{}
		if n := o.int("table"); n > 0 {
			sp = squaresTable(int64(n - 1))
		}
		sq, err := sp.Split(new(big.Int).Set(d))
		if err != nil {
			return "err"
		}
		if len(sq) != sp.SquareCount() {
			return "wrong-count"
		}
		s := new(big.Int)
		for _, v := range sq {
			if v == nil || v.Sign() < 0 {
				return "wrong-square"
			}
			s.Add(s, new(big.Int).Mul(v, v))
		}
		if s.Cmp(d) != 0 {
			return "wrong-sum"
		}
		return "ok"
	}
}

func genC13(g *Rng, tier string, emit func(Op)) {
	{
		dmax := int64(6000)
		if tier == "thorough" {
			dmax = 200000
		}
		for d := int64(0); d <= dmax; d++ {
			emit(Op{"op": "rp-split", "class": "split-four-dense", "label": "ok", "nomodel": true, "d": hxi(d), "table": 0})
		}
		for i := 0; i < int(dmax/10); i++ {
			emit(Op{"op": "rp-split", "class": "split-four-random", "label": "ok", "nomodel": true, "d": hx(g.bits(1 + g.intn(300))), "table": 0})
		}
	}

	keys := []*KeyPair{fixedKey("k1024a", false)}
	nrand := 10
	window := int64(3)
	if tier == "thorough" {
		keys = append(keys, fixedKey("k2048", false))
		nrand = 150
		window = 64
	}
	const tableLimit = 600
	for _, kp := range keys {
		emit(declKey(kp))
		emit(declSk(kp))
	}
	for _, kp := range keys {
		secret := randSecret(g)
		mk := func(sign int64, factor uint64, bound, m *big.Int, table int, class string) Op {
			// by construction: the statement is true and within the documented limits => provable
			o := Op{"op": "rp-complete", "class": class, "key": kp.id, "secret": hx(secret), "m": hx(m),
				"sign": hxi(sign), "factor": new(big.Int).SetUint64(factor).Go().Text(16), "bound": hx(bound), "table": table}
			d := new(big.Int).Mul(m, new(big.Int).SetUint64(factor))
			d.Sub(d, bound)
			if sign == -1 {
				d.Neg(d)
			}
			if d.Sign() >= 0 {
				inLimits := true
				if table > 0 {
					// documented range of the table splitter: 4*(m-bound)+2 resp. 4*(bound-m)+2 below the table size
					dd := new(big.Int).Mul(d, bi(4))
					dd.Add(dd, bi(2))
					inLimits = factor == 1 && dd.Cmp(bi(int64(table))) < 0
				}
				if inLimits {
					o["label"] = "ok"
					if table > 0 && sign == -1 && d.Sign() == 0 {
						o["fkey"] = "C13/three-square-le-at-equality"
					}
				}
			}
			return o
		}
		// where the attribute sits: more attributes, the statement on the last / a middle one, with
		// none, some or all of the others disclosed
		{
			mm := g.bits(60)
			for _, lay := range []struct {
				nattr, idx int
				disclosed  []int
			}{{5, 5, nil}, {5, 5, []int{1}}, {5, 5, []int{1, 2}}, {5, 5, []int{2, 3}}, {5, 5, []int{1, 2, 3, 4}}, {5, 3, []int{1, 5}}, {5, 1, []int{2, 3, 4, 5}},
				{4, 4, []int{3}}, {3, 2, []int{1, 3}}, {6, 6, []int{5}}} {
				if lay.nattr+1 > len(kp.pk.R) {
					continue // the key has too few bases for this credential
				}
				for _, table := range []int{0, tableLimit + 1} {
					for _, sign := range []int64{1, -1} {
						bound := new(big.Int).Sub(mm, bi(5*sign))
						o := mk(sign, 1, bound, mm, table, "layout")
						o["nattr"], o["idx"], o["disclosed"] = lay.nattr, lay.idx, intsAny(lay.disclosed)
						emit(o)
					}
				}
			}
		}
		for _, table := range []int{0, tableLimit + 1} {
			for _, sign := range []int64{1, -1} {
				mm := g.bits(60)
				emit(Op{"op": "rp-statement-recycled", "class": "statement-recycled-after-builder", "label": "ok", "nomodel": true, "fkey": "C13/statement-recycled",
					"key": kp.id, "secret": hx(secret), "m": hx(mm), "sign": hxi(sign), "bound": hx(new(big.Int).Sub(mm, bi(20*sign))), "shift": hxi(70), "table": table})
			}
		}
		// a range statement on an attribute the credential does not have: refused when the builder is
		// made (recorded run; before 0cb86be the proof construction crashed)
		{
			res := func() (r string) {
				defer func() {
					if e := recover(); e != nil {
						r = fmt.Sprintf("panic: %v", e)
					}
				}()
				cred := issueCred(kp, secret, []*big.Int{g.bits(60), g.bits(60)})
				st, _ := rangeproof.NewStatement(rangeproof.GreaterOrEqual, bi(0))
				for _, idx := range []int{3, 4, -1} {
					p, err := cred.CreateDisclosureProof([]int{1}, map[int][]*rangeproof.Statement{idx: {st}}, false, bi(1), bi(2))
					if err == nil || p != nil {
						return fmt.Sprintf("built a proof with a range statement at index %d", idx)
					}
				}
				return "refused"
			}()
			emit(Op{"op": "recorded", "class": "range-statement-at-nonexistent-index", "label": "refused", "nomodel": true, "fkey": "C12/prover-nonexistent-index", "result": res})
		}
		// tables of other sizes (the documented range depends on the table alone): the largest
		// differences each supports, where the roots use all the bits the table declares
		for _, tl := range []int{30, 100, 127, 128, 2000, 5000} {
			top := int64(tl-2) / 4
			mm := g.bits(60)
			for _, d := range []int64{0, 1, top / 2, top - 3, top - 2, top - 1, top} {
				if d < 0 {
					continue
				}
				emit(mk(1, 1, new(big.Int).Sub(mm, bi(d)), mm, tl+1, "table-size-sweep").with("fkey", "C13/table-size"))
				if d > 0 {
					emit(mk(-1, 1, new(big.Int).Add(mm, bi(d+1)), mm, tl+1, "table-size-sweep").with("fkey", "C13/table-size"))
				}
			}
		}
		// statements on several hidden attributes in one proof
		for _, idxs := range [][]int{{1, 2}, {2, 1}, {1, 2, 4}, {4, 2, 2, 1}, {3, 1, 3}, {1, 2, 3, 4}} {
			if 5 > len(kp.pk.R) {
				continue
			}
			var stmts []any
			vals := map[int]*big.Int{}
			for j, idx := range idxs {
				if vals[idx] == nil {
					vals[idx] = g.bits(50)
				}
				sign := int64(1 - 2*(j%2))
				table := int64(0)
				if j == len(idxs)-1 {
					table = tableLimit + 1
				}
				bound := new(big.Int).Sub(vals[idx], bi(int64(3+j)*sign))
				stmts = append(stmts, []any{hxi(int64(idx)), hx(vals[idx]), hxi(sign), hxi(1), hx(bound), hxi(table)})
			}
			emit(Op{"op": "rp-complete-multi", "class": "several-attributes", "label": "ok", "nomodel": true, "fkey": "C13/several-attributes",
				"key": kp.id, "secret": hx(secret), "nattr": 4, "stmts": stmts, "disclosed": intsAny(nil), "reps": 10})
		}
		// differences at the upper end of what four squares of l_d bits can express (just below
		// 2^Lm): the roots then use all their bits
		{
			lm := kp.pk.Params.Lm
			top := new(big.Int).Sub(new(big.Int).Lsh(bi(1), lm), bi(1))
			for _, d := range []*big.Int{top, new(big.Int).Sub(top, bi(1)), new(big.Int).Add(new(big.Int).Lsh(bi(1), lm-1), bi(12345)),
				new(big.Int).Sub(new(big.Int).Lsh(bi(1), lm-2), bi(1)), new(big.Int).Sub(top, g.bits(int(lm)-3)), new(big.Int).Sub(top, g.bits(int(lm)-8))} {
				// m >= m - d  (m at the top of the range)  and  small <= small + d
				emit(mk(1, 1, new(big.Int).Sub(top, d), top, 0, "difference-at-limit"))
				small := g.bits(40)
				emit(mk(-1, 1, new(big.Int).Add(small, d), small, 0, "difference-at-limit"))
			}
		}
		m := g.bits(60)
		// dense window around equality, both signs, both splitters
		for delta := -window; delta <= window; delta++ {
			bound := new(big.Int).Add(m, bi(delta))
			for _, sign := range []int64{1, -1} {
				emit(mk(sign, 1, bound, m, 0, fmt.Sprintf("window-4sq")))
				emit(mk(sign, 1, bound, m, tableLimit+1, fmt.Sprintf("window-3sq")))
			}
		}
		// factors 1..8 with four squares, also for attributes at the top of the legal range
		big1 := new(big.Int).Sub(new(big.Int).Lsh(bi(1), kp.pk.Params.Lm), bi(189))
		for f := uint64(1); f <= 8; f++ {
			fb := new(big.Int).Mul(big1, new(big.Int).SetUint64(f))
			emit(mk(1, f, new(big.Int).Sub(fb, bi(10)), big1, 0, "factor-ge-large"))
			emit(mk(-1, f, new(big.Int).Add(fb, bi(10)), big1, 0, "factor-le-large"))
			fm := new(big.Int).Mul(m, new(big.Int).SetUint64(f))
			for _, off := range []int64{0, 1, 7, 1000003} {
				emit(mk(1, f, new(big.Int).Sub(fm, bi(off)), m, 0, "factor-ge"))
				emit(mk(-1, f, new(big.Int).Add(fm, bi(off)), m, 0, "factor-le"))
			}
		}
		// every table entry (sample in quick)
		for d := int64(0); 4*d+2 < tableLimit+1; d++ {
			if tier != "thorough" && d%7 != 0 {
				continue
			}
			emit(mk(1, 1, new(big.Int).Sub(m, bi(d)), m, tableLimit+1, "table-entry"))
			emit(mk(-1, 1, new(big.Int).Add(m, bi(d+1)), m, tableLimit+1, "table-entry"))
		}
		// random differences up to 2^256 (stress the four-square splitter)
		for i := 0; i < nrand; i++ {
			bits := []int{1, 8, 31, 32, 63, 64, 65, 127, 128, 200, 255, 256}[g.intn(12)]
			mm := g.bits(256)
			diff := g.bits(bits)
			if diff.Cmp(mm) > 0 {
				diff = new(big.Int).Set(mm)
			}
			emit(mk(1, 1, new(big.Int).Sub(mm, diff), mm, 0, "random-ge"))
			emit(mk(-1, 1, new(big.Int).Add(mm, g.bits(bits)), mm, 0, "random-le"))
		}
	}
}

// proofDTreeNegK: like proofDTree but tolerates a negative K (which the wire format cannot carry).
func proofDTreeNegK(p *gabi.ProofD) T {
	for _, l := range p.RangeProofs {
		for _, rp := range l {
			if rp.K.Sign() < 0 {
				rp.K = new(big.Int).Abs(rp.K)
			}
		}
	}
	return proofDTree(p)
}
