package main

import (
	"context"
	"crypto/ecdh"
	crand "crypto/rand"
	"crypto/x509"
	"encoding/base64"
	"encoding/json"
	"fmt"
	"io"
	gobig "math/big"
	"os"
	"os/exec"
	"runtime"
	"strings"
	"sync"
	"time"

	"github.com/privacybydesign/gabi"
	"github.com/privacybydesign/gabi/big"
	"github.com/privacybydesign/gabi/gabikeys"
	"github.com/privacybydesign/gabi/keyproof"
	"github.com/privacybydesign/gabi/safeprime"
)

// C16: generated issuer keys are well-formed; generation leaves no worker running.
//
// gen runs the real generator (crypto/rand) and embeds its outputs in the op lines; exec evaluates
// an independent Go predicate (math/big only, plus the observation points keyproof.CanProve and
// PrivateKey.Validate) on the embedded key, the Lean side evaluates Gabi.KeyGen.failures.

// c16Param returns the parameter set for modulus length ln: the library's table for the
// supported sizes, toy sets (registered like gabi_test.go does for 256) otherwise.
func c16Param(ln uint) *gabikeys.SystemParameters {
	if p, ok := gabikeys.DefaultSystemParameters[int(ln)]; ok && ln >= 1024 {
		return p
	}
	base := gabikeys.BaseParameters{LePrime: 120, Lh: 256, Lm: 256, Ln: ln, Lstatzk: 80}
	return &gabikeys.SystemParameters{BaseParameters: base, DerivedParameters: gabikeys.MakeDerivedParameters(base)}
}

// waitGoroutines polls until the number of goroutines is back at baseline; returns the excess.
func waitGoroutines(baseline int, timeout time.Duration) int {
	deadline := time.Now().Add(timeout)
	for {
		n := runtime.NumGoroutine() - baseline
		if n <= 0 {
			return 0
		}
		if time.Now().After(deadline) {
			return n
		}
		time.Sleep(2 * time.Millisecond)
	}
}

func ecScalars(skStr, pkStr string) (d, x, y *big.Int, err error) {
	sb, err := base64.StdEncoding.DecodeString(skStr)
	if err != nil {
		return nil, nil, nil, err
	}
	sk, err := x509.ParseECPrivateKey(sb)
	if err != nil {
		return nil, nil, nil, err
	}
	skb, err := sk.Bytes()
	if err != nil {
		return nil, nil, nil, err
	}
	pb, err := base64.StdEncoding.DecodeString(pkStr)
	if err != nil {
		return nil, nil, nil, err
	}
	gpk, err := x509.ParsePKIXPublicKey(pb)
	if err != nil {
		return nil, nil, nil, err
	}
	type byter interface{ Bytes() ([]byte, error) }
	pkb, err := gpk.(byter).Bytes() // uncompressed point 04 || X || Y
	if err != nil || len(pkb) != 65 || pkb[0] != 4 {
		return nil, nil, nil, fmt.Errorf("bad point")
	}
	return new(big.Int).SetBytes(skb), new(big.Int).SetBytes(pkb[1:33]), new(big.Int).SetBytes(pkb[33:]), nil
}

// keypairOp embeds one generated key pair.
func keypairOp(sk *gabikeys.PrivateKey, pk *gabikeys.PublicKey, ln uint, nattr int, leaked int, class string) Op {
	d, x, y, err := ecScalars(sk.ECDSAString, pk.ECDSAString)
	if err != nil {
		d, x, y = bi(0), bi(0), bi(0)
	}
	objs := sk.ECDSA != nil && pk.ECDSA != nil && pk.ECDSA.Equal(&sk.ECDSA.PublicKey)
	if objs {
		// the in-memory objects are the ones that were serialised
		skb, e1 := sk.ECDSA.Bytes()
		pkb, e2 := pk.ECDSA.Bytes()
		objs = e1 == nil && e2 == nil && new(big.Int).SetBytes(skb).Cmp(d) == 0 &&
			new(big.Int).SetBytes(pkb[1:33]).Cmp(x) == 0 && new(big.Int).SetBytes(pkb[33:]).Cmp(y) == 0
	}
	key := "keypair"
	if leaked > 0 {
		key = "workers-left-after-keygen"
	}
	return Op{"op": "keypair", "class": class, "key": key, "label": "true", "ln": int(ln), "nattr": nattr,
		"params": paramsOp(pk.Params),
		"p":      hx(sk.P), "q": hx(sk.Q), "pPrime": hx(sk.PPrime), "qPrime": hx(sk.QPrime), "skN": hx(sk.N), "order": hx(sk.Order),
		"n": hx(pk.N), "S": hx(pk.S), "Z": hx(pk.Z), "G": hx(pk.G), "H": hx(pk.H), "R": hxs(pk.R),
		"ecD": hx(d), "ecX": hx(x), "ecY": hx(y), "ecObjs": objs, "leaked": leaked}
}

func copyOp(o Op) Op {
	r := Op{}
	for k, v := range o {
		r[k] = v
	}
	return r
}

// ---- independent predicate (math/big) ----

func gb(v any) *gobig.Int { return unhx(v).Go() }

func safePrimeInd(x *gobig.Int) bool {
	if x.Cmp(gobig.NewInt(2)) <= 0 {
		return false
	}
	return x.ProbablyPrime(32) && new(gobig.Int).Rsh(x, 1).ProbablyPrime(32)
}

func mod8(x *gobig.Int) int64 { return new(gobig.Int).Mod(x, gobig.NewInt(8)).Int64() }

func isQRInd(p, q, x *gobig.Int) bool {
	n := new(gobig.Int).Mul(p, q)
	return x.Sign() > 0 && x.Cmp(n) < 0 && gobig.Jacobi(x, p) == 1 && gobig.Jacobi(x, q) == 1
}

// order of a quadratic residue in QR_n (cyclic of order p'q').
func qrOrderInd(n, pP, qP, s *gobig.Int) *gobig.Int {
	one := gobig.NewInt(1)
	oneModN := new(gobig.Int).Mod(one, n)
	if new(gobig.Int).Mod(s, n).Cmp(oneModN) == 0 {
		return one
	}
	if new(gobig.Int).Exp(s, pP, n).Cmp(one) == 0 {
		return new(gobig.Int).Set(pP)
	}
	if new(gobig.Int).Exp(s, qP, n).Cmp(one) == 0 {
		return new(gobig.Int).Set(qP)
	}
	return new(gobig.Int).Mul(pP, qP)
}

func inSubgroupInd(p, q, pP, qP, s, x *gobig.Int) bool {
	if !isQRInd(p, q, x) {
		return false
	}
	n := new(gobig.Int).Mul(p, q)
	ord := qrOrderInd(n, pP, qP, s)
	return new(gobig.Int).Exp(x, ord, n).Cmp(new(gobig.Int).Mod(gobig.NewInt(1), n)) == 0
}

// derived parameters written out from the Idemix specification (not via MakeDerivedParameters).
func paramsInd(pm map[string]any, ln int) bool {
	u := func(k string) int {
		switch v := pm[k].(type) {
		case json.Number:
			n, _ := v.Int64()
			return int(n)
		case float64:
			return int(v)
		}
		return -1
	}
	lePrime, lh, lm, lnn, lz := u("LePrime"), u("Lh"), u("Lm"), u("Ln"), u("Lstatzk")
	lv := lnn + 2*lz + lh + lm + 4
	return lnn == ln &&
		u("Le") == lz+lh+lm+5 && u("LeCommit") == lePrime+lz+lh && u("LmCommit") == lm+lz+lh &&
		u("LRA") == lnn+lz && u("LsCommit") == lm+lz+lh+1 && u("Lv") == lv && u("LvCommit") == lv+lz+lh &&
		u("LvPrime") == lnn+lz && u("LvPrimeCommit") == lnn+2*lz+lh
}

func ecMatchesInd(d, x, y *gobig.Int) bool {
	db := d.FillBytes(make([]byte, 32))
	if d.BitLen() > 256 || x.BitLen() > 256 || y.BitLen() > 256 {
		return false
	}
	sk, err := ecdh.P256().NewPrivateKey(db)
	if err != nil {
		return false
	}
	pt := sk.PublicKey().Bytes()
	return len(pt) == 65 && new(gobig.Int).SetBytes(pt[1:33]).Cmp(x) == 0 && new(gobig.Int).SetBytes(pt[33:]).Cmp(y) == 0
}

func execKeypair(o Op) string {
	ln, nattr := o.int("ln"), o.int("nattr")
	p, q, pP, qP := gb(o["p"]), gb(o["q"]), gb(o["pPrime"]), gb(o["qPrime"])
	skN, order, n := gb(o["skN"]), gb(o["order"]), gb(o["n"])
	S, Z, G, H := gb(o["S"]), gb(o["Z"]), gb(o["G"]), gb(o["H"])
	var R []*gobig.Int
	for _, r := range unhxs(o["R"]) {
		R = append(R, r.Go())
	}
	one := gobig.NewInt(1)
	half := func(x *gobig.Int) *gobig.Int {
		if x.Sign() == 0 {
			return gobig.NewInt(0) // natural-number subtraction, as in the model
		}
		return new(gobig.Int).Rsh(new(gobig.Int).Sub(x, one), 1)
	}
	var fails []string
	c := func(ok bool, name string) {
		if !ok {
			fails = append(fails, name)
		}
	}
	all := func(f func(x *gobig.Int) bool) bool {
		for _, r := range R {
			if !f(r) {
				return false
			}
		}
		return true
	}
	c(p.Cmp(q) != 0, "distinct")
	c(safePrimeInd(p), "p-safeprime")
	c(safePrimeInd(q), "q-safeprime")
	c(pP.Cmp(half(p)) == 0 && qP.Cmp(half(q)) == 0, "primes-halves")
	c(p.BitLen() == ln/2 && q.BitLen() == ln/2, "prime-length")
	c(n.Cmp(new(gobig.Int).Mul(p, q)) == 0 && skN.Cmp(n) == 0, "modulus")
	c(n.BitLen() == ln, "modulus-length")
	c(order.Cmp(new(gobig.Int).Mul(pP, qP)) == 0, "order")
	c(mod8(p) != mod8(q), "p-q-mod8")
	c(mod8(pP) != 1 && mod8(qP) != 1, "pprime-mod8")
	c(keyproof.CanProve(big.Convert(pP), big.Convert(qP)), "canprove")
	c(isQRInd(p, q, S), "S-qr")
	c(isQRInd(p, q, Z), "Z-qr")
	c(all(func(x *gobig.Int) bool { return isQRInd(p, q, x) }), "R-qr")
	c(isQRInd(p, q, G), "G-qr")
	c(isQRInd(p, q, H), "H-qr")
	c(inSubgroupInd(p, q, pP, qP, S, Z), "Z-subgroup")
	c(all(func(x *gobig.Int) bool { return inSubgroupInd(p, q, pP, qP, S, x) }), "R-subgroup")
	c(len(R) == nattr, "R-count")
	c(paramsInd(o["params"].(map[string]any), ln), "params")
	c(ecMatchesInd(gb(o["ecD"]), gb(o["ecX"]), gb(o["ecY"])), "revocation-key")
	c(o.int("leaked") == 0, "workers-left")
	// observation points of the real code that have no model counterpart
	sk := &gabikeys.PrivateKey{P: big.Convert(p), Q: big.Convert(q), PPrime: big.Convert(pP), QPrime: big.Convert(qP)}
	if len(fails) == 0 {
		c(sk.Validate() == nil, "validate")
		if v, ok := o["ecObjs"].(bool); ok {
			c(v, "revocation-objects")
		}
	}
	if len(fails) == 0 {
		return "true"
	}
	return "false " + strings.Join(fails, ",")
}

func init() {
	generators["C16"] = genC16
	executors["keypair"] = execKeypair
	executors["preparebytes"] = func(o Op) string {
		b := unhb(o["bytes"])
		safeprime.VerifPrepareBytes(b, uint(o.int("b")))
		return "ok " + hb(b)
	}
	executors["findmatch"] = func(o Op) string {
		base := gabikeys.BaseParameters{Ln: uint(o.int("ln"))}
		q := gabikeys.VerifFindMatch(unhxs(o["primes"]), &gabikeys.SystemParameters{BaseParameters: base}, unhx(o["p"]))
		return okInt(q, q != nil, "none")
	}
	executors["canprove"] = func(o Op) string {
		return fmt.Sprint(keyproof.CanProve(unhx(o["pPrime"]), unhx(o["qPrime"])))
	}
	executors["qr-member"] = func(o Op) string {
		return fmt.Sprint(isQRInd(gb(o["p"]), gb(o["q"]), gb(o["x"])))
	}
	// re-runs the real generator: no worker may be left some time after GenerateKeyPair returned.
	// Runs in a child process so that a generation that does not return can be abandoned.
	children["keygen-workers-child"] = func(args []string) {
		var ln, count, wait int
		fmt.Sscan(args[0], &ln)
		fmt.Sscan(args[1], &count)
		fmt.Sscan(args[2], &wait)
		for i := 0; i < count; i++ {
			base := runtime.NumGoroutine()
			if _, _, err := gabikeys.VerifGenerateSafePrimePair(c16Param(uint(ln))); err != nil {
				fmt.Println("err")
				return
			}
			if waitGoroutines(base, time.Duration(wait)*time.Millisecond) > 0 {
				fmt.Println("leak")
				return
			}
		}
		fmt.Println("clean")
	}
	executors["keygen-workers"] = func(o Op) string {
		self, err := os.Executable()
		if err != nil {
			return "err"
		}
		budget := keygenBudget(uint(o.int("ln"))) + time.Duration(o.int("count"))*200*time.Millisecond
		ctx, cancel := context.WithTimeout(context.Background(), budget)
		defer cancel()
		cmdw := exec.CommandContext(ctx, self, "keygen-workers-child", fmt.Sprint(o.int("ln")), fmt.Sprint(o.int("count")), fmt.Sprint(o.int("wait")))
		cmdw.Env = procsEnv(o)
		out, err := cmdw.Output()
		if ctx.Err() != nil {
			return "timeout"
		}
		if err != nil {
			return "err"
		}
		return strings.TrimSpace(string(out))
	}
	executors["safeprime-stop"] = func(o Op) string {
		bits, recvs, mode := o.int("bits"), o.int("recvs"), o.str("mode")
		base := runtime.NumGoroutine()
		stop := make(chan struct{})
		ints, errs := safeprime.GenerateConcurrent(bits, stop)
		for i := 0; i < recvs; i++ {
			select {
			case <-ints:
			case <-errs:
				return "err"
			}
		}
		if mode == "fill" {
			// the consumer is descheduled between its last receive and close(stop): the workers
			// fill the buffer and then wait at their send statement
			deadline := time.Now().Add(5 * time.Second)
			for len(ints) < cap(ints) && time.Now().Before(deadline) {
				time.Sleep(time.Millisecond)
			}
			time.Sleep(time.Duration(o.int("settle")) * time.Millisecond)
		}
		if o.boolean("send") {
			stop <- struct{}{}
		} else {
			close(stop)
		}
		if o.boolean("drain") {
			// a consumer that keeps reading after it asked to stop: whatever still arrives is a
			// safe prime of the requested size, never a nil
			deadline := time.Now().Add(time.Duration(o.int("wait")) * time.Millisecond)
			for runtime.NumGoroutine() > base && time.Now().Before(deadline) {
				select {
				case x := <-ints:
					if x == nil {
						return "nil-delivered"
					}
					if x.BitLen() != bits || !safePrimeInd(x.Go()) {
						return "bad-prime-delivered"
					}
				case <-errs:
					return "err"
				default:
					time.Sleep(200 * time.Microsecond)
				}
			}
			// what the workers left in the buffer on their way out
			for len(ints) > 0 {
				if x := <-ints; x == nil {
					return "nil-delivered"
				} else if x.BitLen() != bits || !safePrimeInd(x.Go()) {
					return "bad-prime-delivered"
				}
			}
		}
		if waitGoroutines(base, time.Duration(o.int("wait"))*time.Millisecond) > 0 {
			return "leak"
		}
		return "clean"
	}
}

// ---- generators ----

type c16Key struct {
	sk     *gabikeys.PrivateKey
	pk     *gabikeys.PublicKey
	ln     uint
	nattr  int
	leaked int
}

func c16Generate(ln uint, nattr int) c16Key {
	sk, pk, err := gabikeys.GenerateKeyPair(c16Param(ln), nattr, 0, time.Unix(2000000000, 0))
	if err != nil {
		panic(err)
	}
	return c16Key{sk: sk, pk: pk, ln: ln, nattr: nattr}
}

// keygenBudget: how long one key generation may take before it counts as not terminating (toy
// lengths take milliseconds to a few seconds, 1024 bits a few minutes on a loaded machine).
func keygenBudget(ln uint) time.Duration {
	switch {
	case ln <= 200:
		return 45 * time.Second
	case ln <= 512:
		return 240 * time.Second
	}
	return 40 * time.Minute
}

// c16GenerateDeadline runs c16Generate but gives up after the budget; the abandoned call keeps
// running in its goroutine until the process exits.
func c16GenerateDeadline(ln uint, nattr int) (c16Key, bool) {
	ch := make(chan c16Key, 1)
	go func() { ch <- c16Generate(ln, nattr) }()
	select {
	case k := <-ch:
		return k, true
	case <-time.After(keygenBudget(ln)):
		return c16Key{}, false
	}
}

// procsEnv: the environment of a child process; "procs" fixes the number of processors the Go
// runtime may use there (a one-core container, a CPU quota)
func procsEnv(o Op) []string {
	if o["procs"] == nil {
		return nil
	}
	var env []string
	for _, e := range os.Environ() {
		if !strings.HasPrefix(e, "GOMAXPROCS=") {
			env = append(env, e)
		}
	}
	return append(env, fmt.Sprintf("GOMAXPROCS=%d", o.int("procs")))
}

// degenerateDrawReader answers the first read of exactly `size` bytes with zeroes (the draw of
// the first candidate for the base S at that modulus length) and passes everything else through.
type degenerateDrawReader struct {
	orig io.Reader
	size int
	mu   sync.Mutex
	hits int
}

func (r *degenerateDrawReader) Read(p []byte) (int, error) {
	r.mu.Lock()
	first := len(p) == r.size && r.hits == 0
	if first {
		r.hits++
	}
	r.mu.Unlock()
	if first {
		for i := range p {
			p[i] = 0
		}
		return len(p), nil
	}
	return r.orig.Read(p)
}

func init() {
	// child process (it replaces the process-wide randomness source): key generation whose first
	// candidate for S is the degenerate value 0; the generated bases are quadratic residues
	// modulo both primes whatever the source hands out
	children["keygen-degenerate-child"] = func(args []string) {
		var ln, nattr int
		fmt.Sscan(args[0], &ln)
		fmt.Sscan(args[1], &nattr)
		reader := &degenerateDrawReader{orig: crand.Reader, size: ln / 8}
		crand.Reader = reader
		sk, pk, err := gabikeys.GenerateKeyPair(c16Param(uint(ln)), nattr, 0, time.Unix(2000000000, 0))
		if err != nil {
			fmt.Println("err " + err.Error())
			return
		}
		if reader.hits == 0 {
			fmt.Println("wellformed (the degenerate draw was not consumed)")
			return
		}
		bad := ""
		chk := func(name string, x *big.Int) {
			if x == nil || x.Sign() <= 0 || x.Cmp(pk.N) >= 0 || gobig.Jacobi(x.Go(), sk.P.Go()) != 1 || gobig.Jacobi(x.Go(), sk.Q.Go()) != 1 {
				bad += " " + name
			}
		}
		chk("S", pk.S)
		chk("Z", pk.Z)
		for i, r := range pk.R {
			chk(fmt.Sprintf("R%d", i), r)
		}
		if bad != "" {
			fmt.Println("not-residues:" + bad)
			return
		}
		fmt.Println("wellformed")
	}
	executors["keygen-degenerate"] = func(o Op) string {
		self, err := os.Executable()
		if err != nil {
			return "err"
		}
		ctx, cancel := context.WithTimeout(context.Background(), keygenBudget(uint(o.int("ln"))))
		defer cancel()
		out, err := exec.CommandContext(ctx, self, "keygen-degenerate-child", fmt.Sprint(o.int("ln")), fmt.Sprint(o.int("nattr"))).Output()
		if ctx.Err() != nil {
			return "timeout"
		}
		if err != nil {
			return "err"
		}
		return strings.SplitN(strings.TrimSpace(string(out)), " ", 2)[0]
	}
}

func terminatesOp(ln uint, nattr int, class string) Op {
	return Op{"op": "keygen-terminates", "class": class, "fkey": "keygen-does-not-terminate", "label": "done", "nomodel": true,
		"ln": int(ln), "nattr": nattr, "budget_ms": int(keygenBudget(ln) / time.Millisecond)}
}

func init() {
	// child process: one key generation, exit 0 when it returned
	children["keygen-child"] = func(args []string) {
		var ln, nattr int
		fmt.Sscan(args[0], &ln)
		fmt.Sscan(args[1], &nattr)
		c16Generate(uint(ln), nattr)
	}
	// derived parameters: the shipped table (table = Ln) or MakeDerivedParameters on given base
	// parameters, against the formulas of the specification written out in paramsInd
	executors["derived-params"] = func(o Op) string {
		var sp *gabikeys.SystemParameters
		if t := o.int("table"); t > 0 {
			sp = gabikeys.DefaultSystemParameters[t]
			if sp == nil {
				return "missing"
			}
		} else {
			base := gabikeys.BaseParameters{LePrime: uint(o.int("LePrime")), Lh: uint(o.int("Lh")), Lm: uint(o.int("Lm")), Ln: uint(o.int("Ln")), Lstatzk: uint(o.int("Lstatzk"))}
			sp = &gabikeys.SystemParameters{BaseParameters: base, DerivedParameters: gabikeys.MakeDerivedParameters(base)}
		}
		b, _ := json.Marshal(paramsOp(sp))
		var pm map[string]any
		json.Unmarshal(b, &pm)
		return fmt.Sprint(paramsInd(pm, int(sp.Ln)))
	}
	executors["keygen-terminates"] = func(o Op) string {
		self, err := os.Executable()
		if err != nil {
			return "err"
		}
		ctx, cancel := context.WithTimeout(context.Background(), time.Duration(o.int("budget_ms"))*time.Millisecond)
		defer cancel()
		cmd := exec.CommandContext(ctx, self, "keygen-child", fmt.Sprint(o.int("ln")), fmt.Sprint(o.int("nattr")))
		cmd.Env = procsEnv(o)
		err = cmd.Run()
		if ctx.Err() != nil {
			return "timeout"
		}
		if err != nil {
			return "err"
		}
		return "done"
	}
}

func leakTimeout(ln uint) time.Duration {
	if ln >= 1024 {
		return 20 * time.Second
	}
	return 3 * time.Second
}

func smallSafePrimeHalves(limit int) []int64 {
	var r []int64
	for pp := int64(2); pp < int64(limit); pp++ {
		if gobig.NewInt(pp).ProbablyPrime(10) && gobig.NewInt(2*pp+1).ProbablyPrime(10) {
			r = append(r, pp)
		}
	}
	return r
}

func genC16(g *Rng, tier string, emit func(Op)) {
	thorough := tier == "thorough"
	stats := map[string]int{}

	// (b1) prepareBytes: every first byte for every b in its domain 1..8 (Generate never passes
	// another value, and a refactoring may legitimately differ outside it), one to three bytes
	for b := 1; b <= 8; b++ {
		for x := 0; x < 256; x++ {
			cls := "preparebytes-exh"
			emit(Op{"op": "preparebytes", "class": cls, "bytes": hb([]byte{byte(x)}), "b": b})
			for _, y := range []byte{0x00, 0x7e, 0xff} {
				emit(Op{"op": "preparebytes", "class": cls, "bytes": hb([]byte{byte(x), y}), "b": b})
			}
			for _, yz := range [][]byte{{0x00, 0x00}, {0x81, 0xfe}} {
				emit(Op{"op": "preparebytes", "class": cls, "bytes": hb([]byte{byte(x), yz[0], yz[1]}), "b": b})
			}
		}
	}
	nrnd := 300
	if thorough {
		nrnd = 5000
	}
	for i := 0; i < nrnd; i++ {
		emit(Op{"op": "preparebytes", "class": "preparebytes-rand", "bytes": hb(g.bytes(1 + g.intn(70))), "b": 1 + g.intn(8)})
	}

	// (b2) findMatch: all odd (p, q) below 64 against every Ln that can occur, then lists
	for ln := 8; ln <= 12; ln += 2 {
		for p := 3; p < 64; p += 2 { // candidates are odd
			for q := 3; q < 64; q += 2 {
				if !thorough && ln != 10 && (p*q)%5 != 0 {
					continue
				}
				emit(Op{"op": "findmatch", "class": "findmatch-exh", "primes": []any{hxi(int64(q))}, "ln": ln, "p": hxi(int64(p))})
			}
		}
	}
	pool := map[int][]*big.Int{}
	poolBits := []int{20, 24, 32, 48, 64}
	npool := 24
	if thorough {
		npool = 80
	}
	for _, bits := range poolBits {
		for i := 0; i < npool; i++ {
			sp, err := safeprime.Generate(bits, nil)
			if err != nil {
				panic(err)
			}
			pool[bits] = append(pool[bits], sp)
		}
	}
	nfm := 600
	if thorough {
		nfm = 8000
	}
	for i := 0; i < nfm; i++ {
		bits := poolBits[g.intn(len(poolBits))]
		var list []*big.Int
		for k := g.intn(7); k > 0; k-- {
			c := pool[bits][g.intn(len(pool[bits]))]
			switch g.intn(8) {
			case 0: // a candidate that is one bit short / long
				c = pool[poolBits[g.intn(len(poolBits))]][g.intn(npool)]
			case 1: // not setting the second-highest bit: values just above 2^(bits-1)
				c = new(big.Int).Add(new(big.Int).Lsh(bi(1), uint(bits-1)), g.bits(bits-3))
			}
			list = append(list, c)
		}
		p := pool[bits][g.intn(len(pool[bits]))]
		if g.intn(6) == 0 {
			p = new(big.Int).Add(new(big.Int).Lsh(bi(1), uint(bits-1)), g.bits(bits-3))
		}
		ln := 2 * bits
		if g.intn(10) == 0 {
			ln += g.intn(3) - 1
		}
		emit(Op{"op": "findmatch", "class": "findmatch-pool", "primes": hxs(list), "ln": ln, "p": hx(p)})
	}

	// (b3) CanProve on every pair of residue classes
	halves := smallSafePrimeHalves(700)
	extra := []int64{0, 1, 4, 7, 9, 13, 15, 17, 19, 25, 33, 49}
	for _, a := range append(append([]int64{}, halves...), extra...) {
		for _, b := range append(append([]int64{}, halves...), extra...) {
			emit(Op{"op": "canprove", "class": "canprove-small", "pPrime": hxi(a), "qPrime": hxi(b)})
		}
	}
	for i := 0; i < nfm/2; i++ {
		a := pool[poolBits[g.intn(len(poolBits))]][g.intn(npool)]
		b := pool[poolBits[g.intn(len(poolBits))]][g.intn(npool)]
		emit(Op{"op": "canprove", "class": "canprove-pool", "pPrime": hx(new(big.Int).Rsh(a, 1)), "qPrime": hx(new(big.Int).Rsh(b, 1))})
	}

	// (c) the stop protocol of the safe-prime workers
	workers := runtime.GOMAXPROCS(0)
	// the stop by send with the consumer still reading, fixed sizes, many short runs (what a worker
	// does with a result it holds at the moment of the stop depends on timing)
	for i := 0; i < 16; i++ {
		emit(Op{"op": "safeprime-stop", "class": "stop-by-send-drain-fixed", "key": "stop-by-send", "label": "clean", "mode": "immediate", "send": true, "drain": true,
			"bits": 20 + (i*7)%24, "recvs": 1 + i%3, "workers": workers, "wait": 2500, "rep": i})
	}
	nstop := 3
	if thorough {
		nstop = 12
	}
	for i := 0; i < nstop; i++ {
		bits := 20 + g.intn(28)
		recvs := 1 + g.intn(4)
		emit(Op{"op": "safeprime-stop", "class": "stop-full-buffer", "key": "worker-leak-full-buffer", "label": "clean",
			"mode": "fill", "bits": bits, "recvs": recvs, "workers": workers, "settle": 40, "wait": 1500})
		emit(Op{"op": "safeprime-stop", "class": "stop-immediate", "key": "worker-leak-immediate", "label": "clean",
			"mode": "immediate", "bits": bits, "recvs": recvs, "workers": workers, "wait": 1500})
		emit(Op{"op": "safeprime-stop", "class": "stop-by-send", "mode": "immediate", "send": true,
			"bits": bits, "recvs": recvs, "workers": workers, "wait": 1500})
		// stopped by sending one value (the documented alternative to closing, what keyproof's
		// findSafePrime does), the consumer still reading: no worker stays, nothing invalid arrives
		emit(Op{"op": "safeprime-stop", "class": "stop-by-send-drain", "key": "stop-by-send", "label": "clean", "mode": "immediate", "send": true, "drain": true,
			"bits": bits, "recvs": recvs, "workers": workers, "wait": 2500})
		emit(Op{"op": "safeprime-stop", "class": "stop-by-close-drain", "key": "stop-by-close", "label": "clean", "mode": "immediate", "drain": true,
			"bits": bits, "recvs": recvs, "workers": workers, "wait": 2500})
	}
	// primes so large that no worker finds one before it is told to stop: the stop signal must
	// reach the workers inside their search, whichever way it is given
	for _, send := range []bool{true, false} {
		emit(Op{"op": "safeprime-stop", "class": fmt.Sprintf("stop-large-send-%v", send), "key": "stop-large", "label": "clean", "nomodel": true, "mode": "immediate", "send": send,
			"bits": 1536, "recvs": 0, "workers": workers, "wait": 8000})
	}

	nkw, ckw := 2, 300
	if thorough {
		nkw, ckw = 6, 1000
	}
	for i := 0; i < nkw; i++ {
		emit(Op{"op": "keygen-workers", "class": "keygen-workers-natural", "key": "workers-left-after-keygen", "label": "clean",
			"ln": 128 + 2*g.intn(3), "count": ckw, "workers": workers, "wait": 3000})
	}

	// (a) key generation
	type plan struct {
		ln uint
		n  int
	}
	plans := []plan{{128, 700}, {130, 40}, {132, 40}, {134, 40}, {160, 150}, {192, 150}, {256, 180}, {320, 40}, {384, 30}, {512, 24}}
	if thorough {
		plans = []plan{{128, 4000}, {130, 300}, {132, 300}, {134, 300}, {144, 300}, {160, 1000}, {192, 1000}, {256, 1400}, {320, 350}, {384, 300}, {448, 150}, {512, 200}, {1024, 8}}
	}
	emitHelpersConcurrent(g, thorough, emit)
	// (d) derived parameters: every shipped set, and base parameters in which no two lengths agree
	// (only the 4096-bit set has Lm != Lh, and no key of that size is generated here)
	for _, ln := range []int{1024, 2048, 4096} {
		emit(Op{"op": "derived-params", "class": "derived-params-table", "label": "true", "nomodel": true, "table": ln})
	}
	nder := 40
	if thorough {
		nder = 1000
	}
	for i := 0; i < nder; i++ {
		emit(Op{"op": "derived-params", "class": "derived-params-random", "label": "true", "nomodel": true, "table": 0,
			"LePrime": 60 + g.intn(200), "Lh": 128 + g.intn(400), "Lm": 128 + g.intn(700), "Ln": 128 + g.intn(5000), "Lstatzk": 40 + g.intn(200)})
	}
	var keys []c16Key
	t0 := time.Now()
	for _, pl := range plans {
		if pl.ln < 1024 {
			emit(terminatesOp(pl.ln, 1+g.intn(20), fmt.Sprintf("keygen-terminates-%d", pl.ln)))
		}
	}
	// the generator of random quadratic residues (it supplies G and H) on small moduli, where a root
	// that shares a factor with n is drawn often: every result is a unit and a residue modulo p and q
	for _, pq := range [][2]int64{{1019, 839}, {1019, 983}, {23, 47}, {7, 11}} {
		pp, qq := gobig.NewInt(pq[0]), gobig.NewInt(pq[1])
		n := bi(pq[0] * pq[1])
		bad, first := 0, ""
		for i := 0; i < 40000; i++ {
			x := gabi.VerifRandomQR(n)
			if x == nil || x.Sign() <= 0 || x.Cmp(n) >= 0 || gobig.Jacobi(x.Go(), pp) != 1 || gobig.Jacobi(x.Go(), qq) != 1 {
				bad++
				if first == "" && x != nil {
					first = x.String()
				}
			}
		}
		res := "all-residues"
		if bad > 0 {
			res = fmt.Sprintf("%d of 40000 results are no quadratic residues of units modulo %d*%d (first: %s)", bad, pq[0], pq[1], first)
		}
		emit(Op{"op": "recorded", "class": "randomqr-small-modulus", "label": "all-residues", "nomodel": true, "fkey": "C16/randomqr-small-modulus", "result": res, "n": hx(n)})
	}
	// the first candidate for the base S is the degenerate value 0
	for _, ln := range []int{256, 192, 128} {
		emit(Op{"op": "keygen-degenerate", "class": "keygen-degenerate-first-S-candidate", "label": "wellformed", "nomodel": true, "fkey": "C16/degenerate-S-candidate",
			"ln": ln, "nattr": 3})
	}
	// a key pair whose revocation keys are renewed (the old ones removed, new ones generated for
	// the same objects): what the objects hold in memory is what they serialise
	for i := 0; i < 2; i++ {
		if k, ok := c16GenerateDeadline(128+uint(2*i), 2+i); ok {
			k.sk.ECDSAString, k.pk.ECDSAString = "", ""
			if err := gabikeys.GenerateRevocationKeypair(k.sk, k.pk); err != nil {
				emit(Op{"op": "recorded", "class": "revocation-keys-renewed", "label": "renewed", "nomodel": true, "result": "refused: " + err.Error()})
			} else {
				emit(keypairOp(k.sk, k.pk, k.ln, k.nattr, 0, "revocation-keys-renewed").with("fkey", "C16/revocation-keys-renewed"))
			}
		}
	}
	// the same on machines with one, two or three processors
	for _, procs := range []int{1, 2, 3} {
		for _, ln := range []uint{128, 160}[:3-min(procs, 2)] {
			o := terminatesOp(ln, 1+g.intn(6), fmt.Sprintf("keygen-terminates-%d-procs%d", ln, procs))
			o["procs"] = procs
			emit(o)
		}
		emit(Op{"op": "keygen-workers", "class": fmt.Sprintf("keygen-workers-procs%d", procs), "key": "workers-left-after-keygen", "label": "clean",
			"ln": 128, "count": 40, "workers": procs, "wait": 3000, "procs": procs})
	}
	leakEvents := 0
	for _, pl := range plans {
		done := 0
		for done < pl.n && leakEvents < 5 {
			nattr := 1 + g.intn(20)
			conc := 1
			if g.intn(5) == 0 && pl.ln < 1024 {
				conc = 2 + g.intn(3)
			}
			if conc > pl.n-done {
				conc = 1
			}
			baseline := runtime.NumGoroutine()
			batch := make([]c16Key, conc)
			oks := make([]bool, conc)
			if conc == 1 {
				batch[0], oks[0] = c16GenerateDeadline(pl.ln, nattr)
			} else {
				var wg sync.WaitGroup
				for k := 0; k < conc; k++ {
					wg.Add(1)
					go func(k int) {
						defer wg.Done()
						batch[k], oks[k] = c16GenerateDeadline(pl.ln, 1+(nattr+k)%20)
					}(k)
				}
				wg.Wait()
			}
			for k := range oks {
				if !oks[k] {
					// generation did not return within its budget: the property is violated ("generation
					// terminates"); hand the parameters to exec as a failing input and end the battery
					// (the abandoned call keeps the cores busy until this process exits)
					fmt.Fprintf(os.Stderr, "C16 gen: GenerateKeyPair(Ln=%d) did not return within %v; battery cut short\n", pl.ln, keygenBudget(pl.ln))
					emit(terminatesOp(pl.ln, 1+(nattr+k)%20, fmt.Sprintf("keygen-terminates-%d-hung", pl.ln)))
					return
				}
			}
			leaked := waitGoroutines(baseline, leakTimeout(pl.ln))
			if leaked > 0 {
				// the property is already violated; a few instances are enough (leaked workers may
				// keep every core busy, which would make the rest of the battery meaningless)
				leakEvents++
				if leakEvents == 5 {
					fmt.Fprintln(os.Stderr, "C16 gen: workers left running after 5 generations; key generation battery cut short")
				}
			}
			for k := range batch {
				batch[k].leaked = leaked
				cls := fmt.Sprintf("keypair-%d-seq", pl.ln)
				if conc > 1 {
					cls = fmt.Sprintf("keypair-%d-conc", pl.ln)
				}
				o := keypairOp(batch[k].sk, batch[k].pk, pl.ln, batch[k].nattr, leaked, cls)
				emit(o)
				stats[cls]++
				if leaked > 0 {
					stats["workers-left"]++
				}
				// RandomQR volume on this modulus
				if done%8 == 0 {
					x := gabi.VerifRandomQR(batch[k].pk.N)
					emit(Op{"op": "qr-member", "class": "randomqr", "label": "true", "p": hx(batch[k].sk.P), "q": hx(batch[k].sk.Q), "x": hx(x)})
					emit(Op{"op": "qr-member", "class": "random-element", "p": hx(batch[k].sk.P), "q": hx(batch[k].sk.Q), "x": hx(g.below(batch[k].pk.N))})
				}
			}
			if len(keys) < 400 || g.intn(10) == 0 {
				keys = append(keys, batch...)
			}
			done += conc
		}
	}
	genTime := time.Since(t0)

	// corrupted keys: the predicate must not be vacuous and both evaluators must agree on why
	ncor := 120
	if thorough {
		ncor = 1500
	}
	for i := 0; i < ncor && len(keys) > 0; i++ {
		k := keys[g.intn(len(keys))]
		o := keypairOp(k.sk, k.pk, k.ln, k.nattr, 0, "")
		delete(o, "label")
		delete(o, "key")
		n := k.pk.N
		nonres := func(modP bool) *big.Int { // Jacobi -1 modulo one prime, +1 modulo the other
			for {
				x := g.below(n)
				a, b := gobig.Jacobi(x.Go(), k.sk.P.Go()), gobig.Jacobi(x.Go(), k.sk.Q.Go())
				if (modP && a == -1 && b == 1) || (!modP && a == 1 && b == -1) {
					return x
				}
			}
		}
		cls := ""
		switch g.intn(14) {
		case 0:
			cls, o["S"] = "corrupt-S-nonresidue-p", hx(nonres(true))
		case 1:
			cls, o["Z"] = "corrupt-Z-nonresidue-q", hx(nonres(false))
		case 2:
			cls, o["Z"] = "corrupt-Z-random", hx(g.below(n))
		case 3:
			R := append([]*big.Int{}, k.pk.R...)
			R[g.intn(len(R))] = g.below(n)
			cls, o["R"] = "corrupt-R-random", hxs(R)
		case 4:
			cls, o["G"] = "corrupt-G-random", hx(g.below(n))
		case 5:
			cls, o["q"] = "corrupt-q-equals-p", hx(k.sk.P)
		case 6:
			cls, o["ecX"] = "corrupt-ec-point", hx(new(big.Int).Add(unhx(o["ecX"]), bi(1)))
		case 7:
			pm := map[string]any(copyOp(Op(o["params"].(map[string]any))))
			pm["Lv"] = pm["Lv"].(uint) + 1
			cls, o["params"] = "corrupt-params", pm
		case 8:
			cls, o["ln"] = "corrupt-length", int(k.ln)+2
		case 9:
			// S of prime order p' (S^q'), Z an arbitrary square: outside <S> almost surely
			s2 := new(big.Int).Exp(k.pk.S, k.sk.QPrime, n)
			z := g.below(n)
			z.Mul(z, z).Mod(z, n)
			cls, o["S"], o["Z"] = "corrupt-S-small-order", hx(s2), hx(z)
		case 10:
			cls, o["nattr"] = "corrupt-R-count", k.nattr+1
		case 11:
			cls, o["leaked"] = "corrupt-leaked", 1+g.intn(16)
		case 12:
			// another safe prime in the place of q, other fields untouched
			q2 := c16Generate(k.ln, 1).sk.Q
			cls, o["q"] = "corrupt-q-other", hx(q2)
		case 13:
			cls, o["ecD"] = "corrupt-ec-scalar", hx(new(big.Int).Add(unhx(o["ecD"]), bi(1)))
		}
		o["class"] = cls
		emit(o)
	}
	if os.Getenv("VERIF_TRACE") != "" {
		fmt.Fprintf(os.Stderr, "C16 gen: %v key generation, %v\n", genTime, stats)
	}
}
