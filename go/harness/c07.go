package main

import (
	"fmt"
	"os"
	"os/exec"
	"strings"
	"sync"

	"github.com/privacybydesign/gabi"
	"github.com/privacybydesign/gabi/big"
	"github.com/privacybydesign/gabi/rangeproof"
	"github.com/privacybydesign/gabi/revocation"
)

// C07: proof randomness is never reused.

type tval struct {
	session, proof int
	c              *big.Int
	slot           string
	s, m           *big.Int
}

type telem struct {
	proof int
	name  string
	x     *big.Int
}

// independent Go rendering of the freshness check (the Lean model has its own)
func reuseCountGo(vals []tval, els []telem) int {
	n := 0
	for i := range vals {
		for j := i + 1; j < len(vals); j++ {
			a, b := vals[i], vals[j]
			if a.proof == b.proof {
				continue
			}
			if a.session == b.session && a.slot == "secretkey" && b.slot == "secretkey" {
				continue
			}
			ra := new(big.Int).Sub(a.s, new(big.Int).Mul(a.c, a.m))
			rb := new(big.Int).Sub(b.s, new(big.Int).Mul(b.c, b.m))
			reused := ra.Cmp(rb) == 0
			if !reused && a.c.Cmp(b.c) != 0 && a.m.Cmp(b.m) == 0 {
				ds, dc := new(big.Int).Sub(a.s, b.s), new(big.Int).Sub(a.c, b.c)
				q, r := new(big.Int).DivMod(ds, dc, new(big.Int))
				if r.Sign() == 0 && q.Cmp(a.m) == 0 {
					reused = true
				}
			}
			if reused {
				n++
			}
		}
	}
	for i := range els {
		for j := i + 1; j < len(els); j++ {
			if els[i].proof != els[j].proof && els[i].x.Cmp(els[j].x) == 0 {
				n++
			}
		}
	}
	return n
}

func init() {
	generators["C07"] = genC07
	executors["reuse-check"] = func(o Op) string {
		var vals []tval
		for _, v := range o["values"].([]any) {
			m := Op(v.(map[string]any))
			vals = append(vals, tval{m.int("session"), m.int("proof"), unhx(m["c"]), m.str("slot"), unhx(m["s"]), unhx(m["m"])})
		}
		var els []telem
		for _, e := range o["elements"].([]any) {
			m := Op(e.(map[string]any))
			els = append(els, telem{m.int("proof"), m.str("name"), unhx(m["x"])})
		}
		if n := reuseCountGo(vals, els); n != 0 {
			return fmt.Sprintf("reused %d", n)
		}
		return fmt.Sprintf("fresh values=%d elements=%d", len(vals), len(els))
	}
}

type collector struct {
	mu      sync.Mutex
	vals    []tval
	els     []telem
	nproof  int
	session int
	nrel    int // non-revocation proofs whose response relations were looked at
	ndep    int // ... of which some relation betrays a shared randomiser
}

func (c *collector) newSession() int {
	c.mu.Lock()
	defer c.mu.Unlock()
	c.session++
	return c.session
}

// addProofD records every response whose secret the checker knows, and the group elements.
func (c *collector) addProofD(session int, p *gabi.ProofD, cred *gabi.Credential) {
	c.mu.Lock()
	defer c.mu.Unlock()
	c.nproof++
	id := c.nproof
	pk := cred.Pk
	for j, s := range p.AResponses {
		slot := fmt.Sprintf("cred%p-attr%d", cred, j)
		if j == 0 {
			slot = "secretkey"
		}
		c.vals = append(c.vals, tval{session, id, p.C, slot, s, expOf(pk.Params.Lm, cred.Attributes[j])})
	}
	ePrime := new(big.Int).Sub(cred.Signature.E, new(big.Int).Lsh(bi(1), pk.Params.Le-1))
	c.vals = append(c.vals, tval{session, id, p.C, fmt.Sprintf("cred%p-e", cred), p.EResponse, ePrime})
	c.els = append(c.els, telem{id, "A", p.A})
	if p.NonRevocationProof != nil {
		// the four blinding secrets of the non-revocation part (e*r2, e*r3, r2, r3) each have a
		// randomiser of their own: were beta/delta and epsilon/zeta blinded alike, then
		// s_beta - s_delta = e*(s_epsilon - s_zeta), which gives e away from a single proof
		if r := p.NonRevocationProof.Responses; r["beta"] != nil && r["delta"] != nil && r["epsilon"] != nil && r["zeta"] != nil && cred.NonRevocationWitness != nil {
			lhs := new(big.Int).Sub(r["beta"], r["delta"])
			rhs := new(big.Int).Sub(r["epsilon"], r["zeta"])
			rhs.Mul(rhs, cred.NonRevocationWitness.E)
			c.nrel++
			if lhs.Cmp(rhs) == 0 || r["beta"].Cmp(r["delta"]) == 0 || r["epsilon"].Cmp(r["zeta"]) == 0 {
				c.ndep++
			}
		}
		c.els = append(c.els, telem{id, "Cr", p.NonRevocationProof.Cr}, telem{id, "Cu", p.NonRevocationProof.Cu})
		// the witness value is the hidden revocation attribute: its response is shared with a_responses
	}
}

func (c *collector) addProofU(session int, p *gabi.ProofU, b *gabi.CredentialBuilder) {
	c.mu.Lock()
	defer c.mu.Unlock()
	c.nproof++
	id := c.nproof
	secret, vPrime, _, _, mUser, _ := b.VerifState()
	c.vals = append(c.vals, tval{session, id, p.C, "secretkey", p.SResponse, secret})
	c.vals = append(c.vals, tval{session, id, p.C, fmt.Sprintf("b%p-vprime", b), p.VPrimeResponse, vPrime})
	for i, r := range p.MUserResponses {
		c.vals = append(c.vals, tval{session, id, p.C, fmt.Sprintf("b%p-m%d", b, i), r, mUser[i]})
	}
	c.els = append(c.els, telem{id, "U", p.U})
}

// relOp: the linear relations between the responses of one non-revocation proof (see addProofD).
func (c *collector) relOp(class string) Op {
	res := "independent"
	if c.ndep > 0 {
		res = fmt.Sprintf("dependent %d of %d", c.ndep, c.nrel)
	}
	return Op{"op": "recorded", "class": class + "-nonrev-response-relations", "label": "independent", "nomodel": true, "result": res, "proofs": c.nrel}
}

func (c *collector) op(class string) Op {
	vals := make([]any, len(c.vals))
	for i, v := range c.vals {
		vals[i] = map[string]any{"session": v.session, "proof": v.proof, "c": hx(v.c), "slot": v.slot, "s": hx(v.s), "m": hx(v.m)}
	}
	els := make([]any, len(c.els))
	for i, e := range c.els {
		els[i] = map[string]any{"proof": e.proof, "name": e.name, "x": hx(e.x)}
	}
	return Op{"op": "reuse-check", "class": class, "label": "fresh", "values": vals, "elements": els}
}

func init() {
	// child process: the first randomisers a freshly started process draws
	children["fresh-randomness-child"] = func(args []string) {
		for i := 0; i < 4; i++ {
			fmt.Println(revocation.NewProofRandomizer().Go().Text(16))
		}
	}
	// a holder's application is restarted between proofs: the randomisers drawn after a start are
	// not those drawn after the previous start
	executors["fresh-process-randomness"] = func(o Op) string {
		self, err := os.Executable()
		if err != nil {
			return "err"
		}
		seen := map[string]int{}
		for run := 0; run < o.int("runs"); run++ {
			out, err := exec.Command(self, "fresh-randomness-child").Output()
			if err != nil {
				return "err"
			}
			for _, l := range strings.Fields(string(out)) {
				seen[l]++
			}
		}
		for _, n := range seen {
			if n > 1 {
				return "repeated-across-restarts"
			}
		}
		return "fresh"
	}
}

func genC07(g *Rng, tier string, emit func(Op)) {
	kp := fixedKey("k1024a", true)
	emit(declKey(kp))
	emit(Op{"op": "fresh-process-randomness", "class": "restart", "label": "fresh", "nomodel": true, "runs": 3})
	nseq, maxOps, goroutines := 3, 12, []int{2, 8}
	if tier == "thorough" {
		nseq, maxOps, goroutines = 20, 40, []int{2, 8, 32}
	}
	mkCreds := func() ([]*gabi.Credential, *issuerRev) {
		ir := newIssuerRev(g, kp)
		secret := randSecret(g)
		var creds []*gabi.Credential
		for i := 0; i < 1+g.intn(3); i++ {
			w := ir.witnessFor()
			cred := issueCred(kp, secret, []*big.Int{g.bits(100), w.E, g.bits(60)})
			cred.NonRevocationWitness = w
			creds = append(creds, cred)
		}
		return creds, ir
	}
	doOp := func(col *collector, creds []*gabi.Credential, ir *issuerRev, k int, ctx, nonce *big.Int, irMu *sync.Mutex) {
		cred := creds[k%len(creds)]
		switch k % 6 {
		case 0:
			_ = cred.NonrevPrepareCache()
		case 1:
			p, err := cred.CreateDisclosureProof([]int{1}, nil, true, ctx, nonce)
			if err == nil {
				col.addProofD(col.newSession(), p, cred)
			}
		case 2:
			p, err := cred.CreateDisclosureProof([]int{3}, nil, false, ctx, nonce)
			if err == nil {
				col.addProofD(col.newSession(), p, cred)
			}
		case 3: // proof list over all credentials (one shared secret-key randomiser)
			var bs gabi.ProofBuilderList
			for _, c := range creds {
				b, err := c.CreateDisclosureProofBuilder(nil, nil, k%2 == 0)
				if err != nil {
					return
				}
				bs = append(bs, b)
			}
			pl, err := bs.BuildProofList(ctx, nonce, false)
			if err != nil {
				return
			}
			s := col.newSession()
			for i, p := range pl {
				col.addProofD(s, p.(*gabi.ProofD), creds[i])
			}
		case 4: // issuance commitment
			b, err := gabi.NewCredentialBuilder(kp.pk, ctx, creds[0].Attributes[0], nonce, nil, []int{1})
			if err != nil {
				return
			}
			m, err := b.CommitToSecretAndProve(nonce)
			if err != nil {
				return
			}
			col.addProofU(col.newSession(), m.Proofs[0].(*gabi.ProofU), b)
		case 5: // revoke someone else, update the witness (sequential use only: Update mutates the witness)
			if irMu == nil {
				ir.revoke(revPrime(g))
				idx := cred.NonRevocationWitness.SignedAccumulator.Accumulator.Index
				_ = cred.NonRevocationWitness.Update(kp.pk, ir.updateFrom(idx+1))
			} else {
				_ = cred.NonrevPrepareCache()
			}
		}
	}
	for s := 0; s < nseq; s++ {
		// sequential histories
		creds, ir := mkCreds()
		col := &collector{}
		ctx, nonce := g.bits(256), g.bits(80)
		nops := 6 + g.intn(maxOps-5)
		for i := 0; i < nops; i++ {
			doOp(col, creds, ir, g.intn(600), ctx, nonce, nil)
		}
		emit(col.op("sequential"))
		if col.nrel > 0 {
			emit(col.relOp("sequential"))
		}
	}
	// the randomised signature element A' = A*S^r of two proofs of one credential differs by S^(r1-r2):
	// with r drawn from its full range that is no small power of S
	{
		pk := kp.pk
		cred := issueCred(kp, randSecret(g), []*big.Int{g.bits(60), g.bits(60)})
		var as []*big.Int
		for i := 0; i < 6; i++ {
			p, err := cred.CreateDisclosureProof([]int{1}, nil, false, g.bits(256), g.bits(80))
			if err != nil {
				panic(err)
			}
			as = append(as, p.A)
		}
		small := map[string]int{}
		acc := bi(1)
		for k := 0; k <= 5000; k++ {
			small[acc.String()] = k
			acc = new(big.Int).Mod(new(big.Int).Mul(acc, pk.S), pk.N)
		}
		res := "unlinkable"
		for i := range as {
			for j := range as {
				if i == j {
					continue
				}
				ratio := new(big.Int).Mul(as[i], new(big.Int).ModInverse(as[j], pk.N))
				ratio.Mod(ratio, pk.N)
				if k, ok := small[ratio.String()]; ok {
					res = fmt.Sprintf("proofs %d and %d: A'_i / A'_j = S^%d", i, j, k)
				}
			}
		}
		emit(Op{"op": "recorded", "class": "randomised-signature-small-power-of-S", "label": "unlinkable", "nomodel": true, "fkey": "C07/randomised-signature-range", "result": res})
	}
	// a hidden attribute whose value is 0 (an absent optional attribute) is blinded like any other:
	// its response is its randomiser, which is long, and never the same twice
	{
		cred := issueCred(kp, randSecret(g), []*big.Int{g.bits(60), bi(0), g.bits(60), bi(0)})
		seen := map[string]bool{}
		res := "fresh"
		for i := 0; i < 4 && res == "fresh"; i++ {
			p, err := cred.CreateDisclosureProof([]int{1}, nil, false, g.bits(256), g.bits(80))
			if err != nil {
				panic(err)
			}
			for _, j := range []int{2, 4} {
				r := p.AResponses[j]
				if r == nil || r.BitLen() < int(kp.pk.Params.LmCommit)-40 {
					res = fmt.Sprintf("short response for the zero attribute %d (%d bits)", j, r.BitLen())
				} else if seen[r.String()] {
					res = "repeated response for a zero attribute"
				}
				seen[r.String()] = true
			}
		}
		emit(Op{"op": "recorded", "class": "zero-attribute-randomiser", "label": "fresh", "nomodel": true, "fkey": "C07/zero-attribute-randomiser", "result": res})
	}
	// a prepared commitment is consumed by at most one proof also while the cache is being prepared
	// again after the credential moved on (executor shared with C20: child process, race detector on)
	for _, n := range []int{3, 8} {
		emit(Op{"op": "race-run", "class": "race/prep-refresh-prove", "label": "ok", "key": "race/prep-refresh-prove", "fkey": "C07/cache-refresh-with-provers",
			"scenario": "prep-refresh-prove", "goroutines": n, "gomaxprocs": 4, "iters": 2, "seed": int(g.u64() >> 12)})
	}
	// range statements: the square roots of the slack and their blinding values are hidden numbers
	// too, each with a randomiser of its own. Were two of them blinded alike, the difference of
	// their responses would be c times the difference of the roots (and a root that is 0 gives
	// the others away, hence the attribute).
	{
		nrp, ndep := 0, 0
		detail := ""
		for _, slack := range []int64{0, 1, 2, 5, 13, 41, 7, 1000003} {
			m := g.bits(60)
			cred := issueCred(kp, randSecret(g), []*big.Int{m, g.bits(60)})
			st, err := rangeproof.NewStatement(rangeproof.GreaterOrEqual, new(big.Int).Sub(m, bi(slack)))
			if err != nil {
				panic(err)
			}
			p, err := cred.CreateDisclosureProof([]int{2}, map[int][]*rangeproof.Statement{1: {st}}, false, g.bits(256), g.bits(80))
			if err != nil {
				panic(err)
			}
			for _, rps := range p.RangeProofs {
				for _, rp := range rps {
					nrp++
					for _, resp := range [][]*big.Int{rp.DResponses, rp.VResponses} {
						for i := range resp {
							for j := i + 1; j < len(resp); j++ {
								d := new(big.Int).Sub(resp[i], resp[j])
								if d.Sign() == 0 || new(big.Int).Mod(d, p.C).Sign() == 0 {
									ndep++
									detail = fmt.Sprintf(" (slack %d, responses %d and %d)", slack, i, j)
								}
							}
						}
					}
				}
			}
		}
		res := "independent"
		if ndep > 0 {
			res = fmt.Sprintf("dependent %d%s", ndep, detail)
		}
		emit(Op{"op": "recorded", "class": "range-proof-response-relations", "label": "independent", "nomodel": true, "fkey": "C07/range-proof-randomisers",
			"result": res, "proofs": nrp})
	}
	// every short history over {P = prepare the cache, U = somebody else is revoked and the witness
	// is updated, D = proof with non-revocation, d = proof without} on one credential: what a
	// prepared commitment goes through between being made and being consumed
	maxLen := 4
	if tier == "thorough" {
		maxLen = 6
	}
	var scripts []string
	var rec func(prefix string)
	rec = func(prefix string) {
		if strings.Count(prefix, "D") >= 2 {
			scripts = append(scripts, prefix) // reuse needs two proofs that consume a commitment
		}
		if len(prefix) == maxLen {
			return
		}
		for _, c := range "PUDd" {
			rec(prefix + string(c))
		}
	}
	rec("")
	for _, script := range scripts {
		ir := newIssuerRev(g, kp)
		w := ir.witnessFor()
		cred := issueCred(kp, randSecret(g), []*big.Int{g.bits(100), w.E, g.bits(60)})
		cred.NonRevocationWitness = w
		col := &collector{}
		ctx, nonce := g.bits(256), g.bits(80)
		for _, c := range script {
			switch c {
			case 'P':
				_ = cred.NonrevPrepareCache()
			case 'U':
				ir.revoke(revPrime(g))
				idx := cred.NonRevocationWitness.SignedAccumulator.Accumulator.Index
				_ = cred.NonRevocationWitness.Update(kp.pk, ir.updateFrom(idx+1))
			case 'D', 'd':
				p, err := cred.CreateDisclosureProof([]int{1}, nil, c == 'D', ctx, nonce)
				if err == nil {
					col.addProofD(col.newSession(), p, cred)
				}
			}
		}
		emit(col.op("script-" + script))
		if col.nrel > 0 {
			emit(col.relOp("script"))
		}
	}
	// one issuance builder asked twice for its commitment proof (a retry with a fresh issuer nonce).
	// A CredentialBuilder commits to v' and to its blind shares once, at construction, so those
	// randomisers are per builder by design and are not recorded here; the secret key is what must
	// not become extractable from the two proofs.
	for k := 0; k < 3; k++ {
		col := &collector{}
		ctx := g.bits(256)
		secret := randSecret(g)
		var blind []int
		if k > 0 {
			blind = []int{k}
		}
		b, err := gabi.NewCredentialBuilder(kp.pk, ctx, secret, g.bits(80), nil, blind)
		if err != nil {
			panic(err)
		}
		for r := 0; r < 2+k; r++ {
			m, err := b.CommitToSecretAndProve(g.bits(80))
			if err != nil {
				panic(err)
			}
			pu := m.Proofs[0].(*gabi.ProofU)
			col.mu.Lock()
			col.nproof++
			col.vals = append(col.vals, tval{col.session + 1, col.nproof, pu.C, "secretkey", pu.SResponse, secret})
			col.session++
			col.mu.Unlock()
		}
		emit(col.op("issuance-retry"))
	}
	// the process-wide fast generator under contention: randomisers drawn concurrently are distinct
	for _, ng := range []int{4, 32} {
		per := 3000
		if tier == "thorough" {
			per = 40000
		}
		out := make([][]string, ng)
		var wg sync.WaitGroup
		for i := 0; i < ng; i++ {
			wg.Add(1)
			go func(i int) {
				defer wg.Done()
				l := make([]string, per)
				for k := range l {
					l[k] = revocation.NewProofRandomizer().Go().Text(16)
				}
				out[i] = l
			}(i)
		}
		wg.Wait()
		seen := map[string]bool{}
		dups := 0
		for _, l := range out {
			for _, x := range l {
				if seen[x] {
					dups++
				}
				seen[x] = true
			}
		}
		res := "fresh"
		if dups > 0 {
			res = fmt.Sprintf("reused %d", dups)
		}
		emit(Op{"op": "recorded", "class": fmt.Sprintf("concurrent-randomizers-%d", ng), "label": "fresh", "nomodel": true, "result": res, "draws": ng * per})
	}
	for _, ng := range goroutines {
		creds, ir := mkCreds()
		col := &collector{}
		ctx, nonce := g.bits(256), g.bits(80)
		for _, c := range creds {
			_ = c.NonrevPrepareCache() // the lazily created cache is set up before sharing (C20 covers the racy first call)
		}
		var wg sync.WaitGroup
		var irMu sync.Mutex
		seeds := make([]int, ng)
		for i := range seeds {
			seeds[i] = g.intn(600)
		}
		for i := 0; i < ng; i++ {
			wg.Add(1)
			go func(i int) {
				defer wg.Done()
				for k := 0; k < 3; k++ {
					doOp(col, creds, ir, seeds[i]+k, ctx, nonce, &irMu)
				}
			}(i)
		}
		wg.Wait()
		emit(col.op(fmt.Sprintf("concurrent-%d", ng)))
	}
}
