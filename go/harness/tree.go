package main

import (
	"sort"
	"strconv"

	"github.com/privacybydesign/gabi/big"
)

// Paths into trees: sequence of object keys / array indices.
type Path []any

func (p Path) String() string {
	s := ""
	for _, e := range p {
		switch v := e.(type) {
		case string:
			s += "/" + v
		case int:
			s += "/" + strconv.Itoa(v)
		}
	}
	return s
}

// walk visits every node (pre-order, deterministic key order).
func walk(t any, prefix Path, f func(p Path, node any)) {
	f(prefix, t)
	switch v := t.(type) {
	case map[string]any:
		if _, ok := isLeafI(v); ok {
			return
		}
		if _, ok := isLeafB(v); ok {
			return
		}
		keys := make([]string, 0, len(v))
		for k := range v {
			keys = append(keys, k)
		}
		sort.Strings(keys)
		for _, k := range keys {
			walk(v[k], append(append(Path{}, prefix...), k), f)
		}
	case []any:
		for i, x := range v {
			walk(x, append(append(Path{}, prefix...), i), f)
		}
	}
}

// leafPaths lists the paths of all big-integer leaves.
func leafPaths(t any) []Path {
	var r []Path
	walk(t, nil, func(p Path, n any) {
		if _, ok := isLeafI(n); ok {
			r = append(r, p)
		}
	})
	return r
}

func allPaths(t any) []Path {
	var r []Path
	walk(t, nil, func(p Path, n any) {
		if len(p) > 0 {
			r = append(r, p)
		}
	})
	return r
}

func getAt(t any, p Path) (any, bool) {
	cur := t
	for _, e := range p {
		switch k := e.(type) {
		case string:
			m, ok := cur.(map[string]any)
			if !ok {
				return nil, false
			}
			cur, ok = m[k]
			if !ok {
				return nil, false
			}
		case int:
			a, ok := cur.([]any)
			if !ok || k >= len(a) {
				return nil, false
			}
			cur = a[k]
		}
	}
	return cur, true
}

// setAt replaces the node at p (in place; t must have been cloned).
func setAt(t any, p Path, v any) {
	parent, _ := getAt(t, p[:len(p)-1])
	switch k := p[len(p)-1].(type) {
	case string:
		parent.(map[string]any)[k] = v
	case int:
		parent.([]any)[k] = v
	}
}

// deleteAt removes the node at p: object member deleted; array element removed (array shrinks).
// Returns the new root (needed when an array held by the parent is re-sliced).
func deleteAt(t any, p Path) {
	parent, _ := getAt(t, p[:len(p)-1])
	switch k := p[len(p)-1].(type) {
	case string:
		delete(parent.(map[string]any), k)
	case int:
		a := parent.([]any)
		na := append(append([]any{}, a[:k]...), a[k+1:]...)
		setAt(t, p[:len(p)-1], na)
	}
}

func leafInt(t any, p Path) *big.Int {
	n, ok := getAt(t, p)
	if !ok {
		return nil
	}
	h, ok := isLeafI(n)
	if !ok {
		return nil
	}
	return unhx(h)
}
