package main

import (
	"strconv"

	"github.com/privacybydesign/gabi"
	"github.com/privacybydesign/gabi/big"
	"github.com/privacybydesign/gabi/rangeproof"
)

// C02: proofs verify only in the session they were made for.

func init() { generators["C02"] = genC02 }

// session is a proof list produced by the real provers together with what it was made for.
type session struct {
	keys   []*KeyPair
	trees  []any
	ctx    *big.Int
	nonce  *big.Int
	issig  bool
	nonrev bool
}

type builderSpec struct {
	kp       *KeyPair
	issuance bool
	nonrev   bool
	rng      bool
}

// buildSession runs the real builders for the given specs, all sharing `secret`. Proofs that hit
// the known verifier ambiguity of C11 (a second hidden response below 2^580, probability 2^-12
// per response) are not this property's concern: such a session is drawn again.
func buildSession(g *Rng, specs []builderSpec, secret *big.Int, issig bool) *session {
	for try := 0; ; try++ {
		s := buildSessionOnce(g, specs, secret, issig)
		amb := false
		for _, t := range s.trees {
			if tt, ok := t.(T); ok && tt["nonrev_proof"] != nil && ambiguous(tt) {
				amb = true
			}
		}
		if !amb || try > 5 {
			return s
		}
	}
}

var sessionCount int

func buildSessionOnce(g *Rng, specs []builderSpec, secret *big.Int, issig bool) *session {
	s := &session{ctx: g.bits(256), nonce: g.bits(128), issig: issig}
	// the contexts deployments actually use are tiny (irmago always uses 1): half of the sessions
	// run under 1, 0 or 2, so that their neighbours 0/1/2/3 are reached by the one-bit changes
	switch sessionCount % 6 {
	case 0, 3:
		s.ctx = bi(1)
	case 1:
		s.ctx = bi(0)
	case 4:
		s.ctx = bi(2)
	}
	sessionCount++
	var builders gabi.ProofBuilderList
	for _, sp := range specs {
		pk := sp.kp.pk
		s.keys = append(s.keys, sp.kp)
		if sp.issuance {
			var blind []int
			if g.coin() {
				blind = []int{g.intn(2)}
			}
			b, err := gabi.NewCredentialBuilder(pk, s.ctx, secret, g.bits(128), nil, blind)
			if err != nil {
				panic(err)
			}
			builders = append(builders, b)
			continue
		}
		nattr := 2 + g.intn(3)
		attrs := make([]*big.Int, nattr)
		for i := range attrs {
			attrs[i] = attrValue(g, pk.Params.Lm)
		}
		var stmts map[int][]*rangeproof.Statement
		if sp.rng {
			attrs[0] = g.bits(60)
			st, _ := rangeproof.NewStatement(rangeproof.GreaterOrEqual, new(big.Int).Sub(attrs[0], bi(int64(g.intn(100)))))
			stmts = map[int][]*rangeproof.Statement{1: {st}}
		}
		var rs *revState
		if sp.nonrev {
			rs = revSetup(sp.kp)
			attrs = append(attrs, rs.witness.E)
			s.nonrev = true
		}
		cred := issueCred(sp.kp, secret, attrs)
		if sp.nonrev {
			cred.NonRevocationWitness = rs.witness
		}
		var disclosed []int
		for i := 2; i <= nattr; i++ {
			if g.coin() {
				disclosed = append(disclosed, i)
			}
		}
		b, err := cred.CreateDisclosureProofBuilder(disclosed, stmts, sp.nonrev)
		if err != nil {
			panic(err)
		}
		builders = append(builders, b)
	}
	pl, err := builders.BuildProofList(s.ctx, s.nonce, issig)
	if err != nil {
		panic(err)
	}
	s.trees = proofListTrees(pl)
	return s
}

func keyIDs(kps []*KeyPair) []any {
	r := make([]any, len(kps))
	for i, k := range kps {
		r[i] = k.id
	}
	return r
}

func listOp(keys []*KeyPair, trees []any, ctx, nonce *big.Int, issig bool, kss []string, class, label string) Op {
	o := Op{"op": "verifylist", "class": class, "label": label, "keys": keyIDs(keys), "proofs": trees,
		"context": hx(ctx), "nonce": hx(nonce), "issig": issig}
	if kss != nil {
		l := make([]any, len(kss))
		for i, k := range kss {
			l[i] = k
		}
		o["kss"] = l
	}
	uniq := map[string]*KeyPair{}
	for _, k := range keys {
		uniq[k.id] = k
	}
	var ks []*KeyPair
	for _, k := range uniq {
		ks = append(ks, k)
	}
	if v := sigViews(trees, ks); len(v) > 0 {
		o["sigviews"] = v
	}
	return o
}

func permutations(n int) [][]int {
	if n == 1 {
		return [][]int{{0}}
	}
	var r [][]int
	for _, p := range permutations(n - 1) {
		for pos := 0; pos <= len(p); pos++ {
			q := append(append(append([]int{}, p[:pos]...), n-1), p[pos:]...)
			r = append(r, q)
		}
	}
	return r
}

// splicedSubProofOps: a range sub-proof made in one session carried by a proof of another session,
// filed under every index there is (hidden, disclosed, unused, beyond the bases): whatever a proof
// carries is bound to its session or the proof is refused.
func splicedSubProofOps(g *Rng, kp *KeyPair) []Op {
	secret := randSecret(g)
	donor := buildSession(g, []builderSpec{{kp: kp, rng: true}}, secret, false)
	rps, _ := donor.trees[0].(T)["rangeproofs"].(T)
	if rps == nil || rps["1"] == nil {
		return nil
	}
	var out []Op
	for _, issig := range []bool{false, true} {
		s := buildSession(g, []builderSpec{{kp: kp}}, secret, issig)
		for k := -1; k <= len(kp.pk.R)+1; k++ {
			t2 := cloneTree(any(s.trees)).([]any)
			t2[0].(T)["rangeproofs"] = T{strconv.Itoa(k): cloneTree(rps["1"])}
			o := listOp(s.keys, t2, s.ctx, s.nonce, s.issig, nil, "spliced-range-subproof", "reject")
			o["fkey"] = "C02/spliced-range-subproof"
			out = append(out, o)
		}
	}
	return out
}

func genC02(g *Rng, tier string, emit func(Op)) {
	ka, kb := fixedKey("k1024a", true), fixedKey("k1024b", true)
	pool := []*KeyPair{ka, kb}
	nsess := 7
	if tier == "thorough" {
		pool = append(pool, fixedKey("k2048", true))
		nsess = 40
	}
	for _, k := range pool {
		emit(declKey(k))
	}
	for _, o := range splicedSubProofOps(g, ka) {
		emit(o)
	}
	var prev *session
	for si := 0; si < nsess; si++ {
		n := 1 + si%4
		specs := make([]builderSpec, n)
		for i := range specs {
			specs[i] = builderSpec{kp: pool[g.intn(len(pool))], issuance: g.intn(4) == 0, nonrev: g.intn(4) == 0, rng: g.intn(4) == 0}
		}
		// the first sessions have fixed shapes, so that every shape a verifier may treat specially
		// occurs in every run: a lone issuance commitment, a lone disclosure, one of each, two commitments
		shapes := [][]bool{{true}, {false}, {true, false}, {true, true}}
		if si < len(shapes) {
			specs = make([]builderSpec, len(shapes[si]))
			for i, iss := range shapes[si] {
				specs[i] = builderSpec{kp: pool[(si+i)%len(pool)], issuance: iss}
			}
			n = len(specs)
		}
		issig := g.coin()
		if si < len(shapes) {
			issig = si%2 == 1
		}
		s := buildSession(g, specs, randSecret(g), issig)
		emit(listOp(s.keys, s.trees, s.ctx, s.nonce, s.issig, nil, "identity", "accept"))
		// context / nonce: one-bit and arbitrary changes
		for k := 0; k < 3; k++ {
			emit(listOp(s.keys, s.trees, new(big.Int).Xor(s.ctx, new(big.Int).Lsh(bi(1), uint(g.intn(256)))), s.nonce, s.issig, nil, "context-bit", "reject"))
			emit(listOp(s.keys, s.trees, s.ctx, new(big.Int).Xor(s.nonce, new(big.Int).Lsh(bi(1), uint(g.intn(128)))), s.issig, nil, "nonce-bit", "reject"))
		}
		emit(listOp(s.keys, s.trees, g.bits(256), s.nonce, s.issig, nil, "context-random", "reject"))
		for _, c := range []int64{0, 1, 2} {
			if s.ctx.Cmp(bi(c)) != 0 {
				emit(listOp(s.keys, s.trees, bi(c), s.nonce, s.issig, nil, "context-small", "reject"))
			}
		}
		// the lowest bits
		emit(listOp(s.keys, s.trees, new(big.Int).Xor(s.ctx, bi(1)), s.nonce, s.issig, nil, "context-bit", "reject"))
		emit(listOp(s.keys, s.trees, s.ctx, new(big.Int).Xor(s.nonce, bi(1)), s.issig, nil, "nonce-bit", "reject"))
		emit(listOp(s.keys, s.trees, s.ctx, g.bits(128), s.issig, nil, "nonce-random", "reject"))
		emit(listOp(s.keys, s.trees, s.nonce, s.ctx, s.issig, nil, "context-nonce-swapped", "reject"))
		// arbitrary changes include a flipped sign (the verifier's own values are arbitrary integers)
		if s.nonce.Sign() != 0 {
			emit(listOp(s.keys, s.trees, s.ctx, new(big.Int).Neg(s.nonce), s.issig, nil, "nonce-negated", "reject"))
		}
		if s.ctx.Sign() != 0 {
			emit(listOp(s.keys, s.trees, new(big.Int).Neg(s.ctx), s.nonce, s.issig, nil, "context-negated", "reject"))
		}
		emit(listOp(s.keys, s.trees, s.ctx, s.nonce, !s.issig, nil, "other-session-kind", "reject"))
		// a lone disclosure proof checked on its own (not as a list): the same session binding
		if tt, ok := s.trees[0].(T); ok && n == 1 && tt["A"] != nil && tt["nonrev_proof"] == nil {
			emit(verifyDOp(s.keys[0].id, cloneTree(tt), s.ctx, s.nonce, s.issig, "standalone-own-session", "accept").with("fkey", "C02/standalone"))
			emit(verifyDOp(s.keys[0].id, cloneTree(tt), s.ctx, s.nonce, !s.issig, "standalone-other-session-kind", "reject").with("fkey", "C02/standalone"))
			emit(verifyDOp(s.keys[0].id, cloneTree(tt), s.ctx, new(big.Int).Add(s.nonce, bi(1)), s.issig, "standalone-other-nonce", "reject").with("fkey", "C02/standalone"))
			emit(verifyDOp(s.keys[0].id, cloneTree(tt), new(big.Int).Add(s.ctx, bi(1)), s.nonce, s.issig, "standalone-other-context", "reject").with("fkey", "C02/standalone"))
		}
		// a crafted member that nothing binds (its contribution cannot be reconstructed), next to
		// the genuine proofs of this very session
		for _, o := range unboundMemberOps(g, s.keys, s.trees, s.ctx, s.nonce, s.issig, "C02/unbound-member") {
			emit(o)
		}
		// empty list / length mismatch
		emit(listOp(nil, []any{}, s.ctx, s.nonce, s.issig, nil, "empty", "reject"))
		emit(listOp(nil, []any{}, s.ctx, s.nonce, s.issig, nil, "empty-not-nil", "reject").with("emptylist", true).with("fkey", "C02/empty-list"))
		emit(listOp(nil, []any{}, s.ctx, s.nonce, s.issig, []string{}, "empty-not-nil-labelled", "reject").with("emptylist", true).with("fkey", "C02/empty-list"))
		emit(listOp(s.keys, s.trees[:n-1], s.ctx, s.nonce, s.issig, nil, "fewer-proofs-than-keys", "reject"))
		emit(listOp(s.keys[:n-1], s.trees, s.ctx, s.nonce, s.issig, nil, "fewer-keys-than-proofs", "reject|decode-error"))
		// key substitution, also on objects that have been verified under their own keys before
		for i := range s.keys {
			ks := append([]*KeyPair{}, s.keys...)
			for _, alt := range pool {
				if alt.id != ks[i].id {
					ks[i] = alt
					break
				}
			}
			if ks[i].id != s.keys[i].id && len(ks[i].pk.R) >= len(s.keys[i].pk.R) {
				o := listOp(s.keys, s.trees, s.ctx, s.nonce, s.issig, nil, "identity-then-other-keys", "accept")
				o["then_keys"] = keyIDs(ks)
				emit(o)
			}
		}
		for i := range s.keys {
			ks := append([]*KeyPair{}, s.keys...)
			for _, alt := range pool {
				if alt.id != ks[i].id {
					ks[i] = alt
					break
				}
			}
			emit(listOp(ks, s.trees, s.ctx, s.nonce, s.issig, nil, "key-substituted", "reject"))
		}
		if n >= 2 {
			// all permutations (proofs and keys permuted alike, and proofs only)
			for _, p := range permutations(n) {
				ident := true
				for i, x := range p {
					if x != i {
						ident = false
					}
				}
				if ident {
					continue
				}
				pt := make([]any, n)
				pk := make([]*KeyPair, n)
				for i, x := range p {
					pt[i], pk[i] = s.trees[x], s.keys[x]
				}
				emit(listOp(pk, pt, s.ctx, s.nonce, s.issig, nil, "permuted", "reject"))
				emit(listOp(s.keys, pt, s.ctx, s.nonce, s.issig, nil, "permuted-proofs-only", "reject"))
			}
			// all proper non-empty sub-lists
			for mask := 1; mask < (1<<n)-1; mask++ {
				var pt []any
				var pk []*KeyPair
				for i := 0; i < n; i++ {
					if mask&(1<<i) != 0 {
						pt, pk = append(pt, s.trees[i]), append(pk, s.keys[i])
					}
				}
				emit(listOp(pk, pt, s.ctx, s.nonce, s.issig, nil, "sublist", "reject"))
			}
		}
		// duplicated member
		i := g.intn(n)
		emit(listOp(append(append([]*KeyPair{}, s.keys...), s.keys[i]), append(append([]any{}, s.trees...), s.trees[i]), s.ctx, s.nonce, s.issig, nil, "duplicated", "reject"))
		// spliced with a proof of another session
		if prev != nil {
			j := g.intn(len(prev.trees))
			pt := append([]any{}, s.trees...)
			pk := append([]*KeyPair{}, s.keys...)
			pt[i], pk[i] = prev.trees[j], prev.keys[j]
			emit(listOp(pk, pt, s.ctx, s.nonce, s.issig, nil, "spliced", "reject"))
			emit(listOp(append(pk, prev.keys[j]), append(append([]any{}, s.trees...), prev.trees[j]), s.ctx, s.nonce, s.issig, nil, "appended-foreign", "reject"))
			// a whole list replayed in another session
			emit(listOp(prev.keys, prev.trees, s.ctx, s.nonce, prev.issig, nil, "replayed", "reject"))
		}
		prev = s
	}
}
