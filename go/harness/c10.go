package main

import (
	"bytes"
	"crypto/sha256"
	"encoding/binary"
	"encoding/json"
	"fmt"
	"strings"

	"github.com/fxamacker/cbor"
	"github.com/multiformats/go-multihash"
	"github.com/privacybydesign/gabi/big"
	"github.com/privacybydesign/gabi/revocation"
)

// C10: only authentic revocation updates are accepted.

type absEvent struct {
	Index  uint64
	E      *big.Int
	Parent []byte
}

func (e absEvent) tree() map[string]any {
	return map[string]any{"i": hxi(int64(e.Index)), "e": hx(e.E), "parent": hb(e.Parent)}
}

// refHash: the harness' own event hash (independent of gabi): sha2-256 multihash of
// index(8, big endian) || parent || bytes(E).
func refHash(e absEvent) []byte {
	b := make([]byte, 8)
	binary.BigEndian.PutUint64(b, e.Index)
	b = append(b, e.Parent...)
	b = append(b, e.E.Bytes()...)
	d := sha256.Sum256(b)
	return append([]byte{0x12, 0x20}, d[:]...)
}

// wellFormedHash: a sha2-256 multihash whose advertised length matches.
func wellFormedHash(h []byte) bool {
	return len(h) >= 2 && h[0] == 0x12 && h[1] < 0x80 && int(h[1]) == len(h)-2
}

// specVerify: the by-construction verdict for an update (after transport): valid signature for
// the key counter, gap-free correctly indexed hash chain ending in the signed event hash.
func specVerify(evs []absEvent, sigOK bool, counterOK bool, accEventHash []byte) bool {
	if !sigOK || !counterOK {
		return false
	}
	if len(evs) == 0 {
		return true
	}
	if !wellFormedHash(accEventHash) || !bytes.Equal(refHash(evs[len(evs)-1]), accEventHash) {
		return false
	}
	for i, e := range evs {
		if e.Index != evs[0].Index+uint64(i) {
			return false
		}
		if !wellFormedHash(e.Parent) {
			return false
		}
		if i > 0 && !bytes.Equal(refHash(evs[i-1]), e.Parent) {
			return false
		}
	}
	return true
}

// transportView: what the compressed JSON/CBOR forms preserve: first index, first parent hash,
// the E values; indices and parent hashes of later events are recomputed by the receiver.
func transportView(evs []absEvent, transport string) []absEvent {
	r := make([]absEvent, len(evs))
	// (the JSON form of a hash is read back whole: bytes after a complete multihash make the message
	// undecodable since 8fec1c6 - the extended hash stays in the view, where it is malformed)
	for i, e := range evs {
		r[i] = absEvent{Index: evs[0].Index + uint64(i), E: e.E, Parent: e.Parent}
		if i > 0 {
			r[i].Parent = refHash(r[i-1])
		}
	}
	return r
}

func goEvents(evs []absEvent) []*revocation.Event {
	r := make([]*revocation.Event, len(evs))
	for i, e := range evs {
		r[i] = &revocation.Event{Index: e.Index, E: new(big.Int).Set(e.E), ParentHash: revocation.Hash(append([]byte{}, e.Parent...))}
	}
	return r
}

func absOf(o any) []absEvent {
	arr, _ := o.([]any)
	r := make([]absEvent, len(arr))
	for i, x := range arr {
		m := x.(map[string]any)
		r[i] = absEvent{Index: unhx(m["i"]).Uint64(), E: unhx(m["e"]), Parent: unhb(m["parent"])}
	}
	return r
}

func init() {
	generators["C10"] = genC10
	executors["update-verify"] = func(o Op) string {
		pk := execKey(o.str("key")).pk
		sv := o["saccbytes"].(map[string]any)
		upd := &revocation.Update{
			SignedAccumulator: &revocation.SignedAccumulator{Data: unhb(sv["data"]), PKCounter: uint(Op(sv).int("pk"))},
			Events:            goEvents(absOf(o["events"])),
		}
		if o.boolean("nosacc") {
			upd.SignedAccumulator = nil // a message that lacks its signed accumulator
		}
		switch o.str("transport") {
		case "json":
			bts, err := json.Marshal(upd)
			if err != nil {
				return "reject"
			}
			upd = &revocation.Update{}
			if err := json.Unmarshal(bts, upd); err != nil {
				return "reject"
			}
		case "cbor":
			bts, err := cbor.Marshal(upd, cbor.EncOptions{})
			if err != nil {
				return "reject"
			}
			upd = &revocation.Update{}
			if err := cbor.Unmarshal(bts, upd); err != nil {
				return "reject"
			}
		}
		if o["nullify"] != nil {
			// an event value that is absent: null on the wire, or an event without a value in memory
			k := o.int("nullify")
			if k >= len(upd.Events) {
				return "bad-op nullify"
			}
			if o.str("transport") == "mem" {
				upd.Events[k].E = nil
			} else {
				fresh := &revocation.Update{SignedAccumulator: &revocation.SignedAccumulator{Data: unhb(sv["data"]), PKCounter: uint(Op(sv).int("pk"))}, Events: goEvents(absOf(o["events"]))}
				bts, err := json.Marshal(fresh)
				if err != nil {
					return "reject"
				}
				var doc any
				if json.Unmarshal(bts, &doc) != nil {
					return "reject"
				}
				var nullAt func(n any) bool
				nullAt = func(n any) bool {
					if m, ok := n.(map[string]any); ok {
						if arr, ok := m["e"].([]any); ok && k < len(arr) {
							arr[k] = nil
							return true
						}
						for _, v := range m {
							if nullAt(v) {
								return true
							}
						}
					}
					return false
				}
				if !nullAt(doc) {
					return "bad-op no value array"
				}
				bts, _ = json.Marshal(doc)
				upd = &revocation.Update{}
				if err := json.Unmarshal(bts, upd); err != nil {
					return "reject"
				}
			}
		}
		if o["post"] != nil {
			// the received (decoded) event objects altered in place before they are verified
			post := absOf(o["post"])
			if len(post) == len(upd.Events) {
				for i, e := range post {
					upd.Events[i].Index, upd.Events[i].E, upd.Events[i].ParentHash = e.Index, new(big.Int).Set(e.E), revocation.Hash(append([]byte{}, e.Parent...))
				}
			} else {
				upd.Events = goEvents(post)
			}
		}
		acc, err := upd.Verify(pk)
		// a verdict is a function of the message and the key: the same object asked again (a retry,
		// or the verification inside Witness.Update after an explicit one) must answer the same
		acc2, err2 := upd.Verify(pk)
		if (err == nil) != (err2 == nil) {
			return fmt.Sprintf("unstable-%v-then-%v", err == nil, err2 == nil)
		}
		if err != nil {
			return "reject"
		}
		if acc2.Index != acc.Index {
			return "unstable-index"
		}
		return fmt.Sprintf("accept %d", acc.Index)
	}
	executors["hash-equal"] = func(o Op) string {
		return fmt.Sprint(revocation.Hash(unhb(o["a"])).Equal(revocation.Hash(unhb(o["b"]))))
	}
	executors["hash-alg"] = func(o Op) string {
		_, err := revocation.Hash(unhb(o["h"])).Algorithm()
		return fmt.Sprint(err == nil)
	}
	executors["event-hash"] = func(o Op) string {
		e := &revocation.Event{Index: unhx(o["i"]).Uint64(), E: unhx(o["e"]), ParentHash: revocation.Hash(unhb(o["parent"]))}
		return hb(e.VerifHash())
	}
	executors["update-prepend"] = func(o Op) string {
		pk := execKey(o.str("key")).pk
		sv := o["saccbytes"].(map[string]any)
		upd := &revocation.Update{
			SignedAccumulator: &revocation.SignedAccumulator{Data: unhb(sv["data"]), PKCounter: uint(Op(sv).int("pk"))},
			Events:            goEvents(absOf(o["events"])),
		}
		if _, err := upd.SignedAccumulator.UnmarshalVerify(pk); err != nil {
			return "sig-error"
		}
		list := revocation.NewEventList(goEvents(absOf(o["prepend"]))...)
		if w := o.str("wire"); w != "" {
			// the list arrives in its wire form, as it would from a revocation server
			list = wireEventList(list, w)
		}
		err := upd.Prepend(list)
		idx := make([]string, len(upd.Events))
		for i, e := range upd.Events {
			idx[i] = fmt.Sprint(e.Index)
		}
		res := "ok "
		if err != nil {
			res = "err "
		}
		return res + strings.Join(idx, ",")
	}
}

type chain struct {
	kp     *KeyPair
	evs    []absEvent
	accs   []*revocation.Accumulator
	signed [][]byte // signed accumulator bytes per index
}

// buildChain runs the real issuer code to revoke n values (the harness keeps abstract copies).
func buildChain(g *Rng, kp *KeyPair, n int) *chain {
	empty := [32]byte{}
	emptyhash, _ := multihash.Encode(empty[:], multihash.SHA2_256)
	initial := &revocation.Event{Index: 0, E: bi(1), ParentHash: revocation.Hash(emptyhash)}
	acc := &revocation.Accumulator{Index: 0, Nu: randomQR(g, kp.pk.N), Time: 1000, EventHash: initial.VerifHash()}
	c := &chain{kp: kp}
	evs := []*revocation.Event{initial}
	sign := func(a *revocation.Accumulator) {
		s, err := a.Sign(kp.sk)
		if err != nil {
			panic(err)
		}
		c.accs = append(c.accs, a)
		c.signed = append(c.signed, s.Data)
	}
	sign(acc)
	for i := 0; i < n; i++ {
		na, ev, err := acc.Remove(kp.sk, revPrime(g), evs[len(evs)-1])
		if err != nil {
			panic(err)
		}
		na.Time = 1000 + int64(i)
		acc = na
		evs = append(evs, ev)
		sign(acc)
	}
	for _, e := range evs {
		c.evs = append(c.evs, absEvent{e.Index, e.E, append([]byte{}, e.ParentHash...)})
	}
	return c
}

func (c *chain) updateOp(evs []absEvent, accIdx int, data []byte, counter int, verifier *KeyPair, transport, class string) Op {
	view := evs
	if transport != "mem" && len(evs) > 0 {
		view = transportView(evs, transport)
	}
	ok, av := sigView(data, verifier.pk.ECDSA)
	var saccView map[string]any
	var accHash []byte
	if ok {
		var nu any
		if av.Nu != nil {
			nu = av.Nu.Text(16)
		}
		accHash = av.EventHash
		saccView = map[string]any{"nu": nu, "index": hxi(int64(av.Index)), "time": hxi(av.Time), "eventhash": hb(av.EventHash), "pk": counter, "sigok": true}
	} else {
		saccView = map[string]any{"nu": "0", "index": "0", "time": "0", "eventhash": "", "pk": counter, "sigok": false}
	}
	label := "reject"
	if specVerify(view, ok, counter == int(verifier.pk.Counter), accHash) {
		label = "accept"
	}
	te := func(l []absEvent) []any {
		r := make([]any, len(l))
		for i, e := range l {
			r[i] = e.tree()
		}
		return r
	}
	return Op{"op": "update-verify", "class": class + "-" + transport, "label": label, "key": verifier.id, "transport": transport,
		"events": te(evs), "view": te(view), "sacc": saccView, "saccbytes": map[string]any{"data": hb(data), "pk": counter}}
}

// wireEventList sends an event list through its JSON or CBOR wire form (real encoder and decoder).
func wireEventList(l *revocation.EventList, wire string) *revocation.EventList {
	out := &revocation.EventList{}
	switch wire {
	case "json":
		b, err := json.Marshal(l)
		if err != nil {
			panic(err)
		}
		if err := json.Unmarshal(b, out); err != nil {
			panic(err)
		}
	case "cbor":
		b, err := cbor.Marshal(l, cbor.EncOptions{})
		if err != nil {
			panic(err)
		}
		if err := cbor.Unmarshal(b, out); err != nil {
			panic(err)
		}
	default:
		panic("wire " + wire)
	}
	return out
}

func absEvents(l *revocation.EventList) []absEvent {
	r := make([]absEvent, len(l.Events))
	for i, e := range l.Events {
		r[i] = absEvent{e.Index, new(big.Int).Set(e.E), append([]byte{}, e.ParentHash...)}
	}
	return r
}

func cloneEvs(evs []absEvent) []absEvent {
	r := make([]absEvent, len(evs))
	for i, e := range evs {
		r[i] = absEvent{e.Index, new(big.Int).Set(e.E), append([]byte{}, e.Parent...)}
	}
	return r
}

func genC10(g *Rng, tier string, emit func(Op)) {
	ka, kb := fixedKey("k1024a", true), fixedKey("k1024b", true)
	keys := []*KeyPair{ka, kb}

	// update messages as a holder's witness meets them (Witness.Update): a genuine signed accumulator
	// with an altered event list must be refused wherever the witness stands - behind the window,
	// inside it, or already at the accumulator's index (where there is nothing left to compute)
	{
		kp := ka
		emit(declKey(kp))
		emit(declSk(kp))
		n := 4
		b := newHistBuilder()
		nu0 := randomQR(g, kp.pk.N)
		for i := 0; i <= n; i++ {
			b.witness(fmt.Sprintf("w%d", i), revPrime(g))
			if i < n {
				b.revoke(revPrime(g))
			}
		}
		k := 0
		for from := 1; from <= n; from++ {
			for to := from; to <= n; to++ {
				id := fmt.Sprintf("bad%d", k)
				b.mkbadevents(id, from, to, k)
				k++
				for wi := 0; wi <= n; wi++ {
					tmp := fmt.Sprintf("t%d_%d", k, wi)
					b.clone(fmt.Sprintf("w%d", wi), tmp)
					b.apply(tmp, id)
					b.verifyw(tmp)
				}
			}
		}
		emit(b.op(kp, nu0, "witness-meets-altered-events"))
		emit(chosenEventValuesOp(g, kp))
		prependedChunkOps(g, kp, 4, emit)
	}
	maxLen, ndouble := 4, 30
	if tier == "thorough" {
		maxLen, ndouble = 8, 600
	}
	for _, k := range keys {
		emit(declKey(k))
	}
	// hash comparison: equal, prefix, extension, one byte off, empty
	h := refHash(absEvent{3, bi(77), refHash(absEvent{2, bi(5), make([]byte, 34)})})
	pairs := [][2][]byte{{h, h}, {h, h[:33]}, {h[:33], h}, {h, h[:2]}, {h, []byte{}}, {[]byte{}, h}, {h, append(append([]byte{}, h...), 0)},
		{append(append([]byte{}, h...), 7), h}, {h, append([]byte{h[0] ^ 1}, h[1:]...)}, {[]byte{}, []byte{}}}
	for _, p := range pairs {
		label := "false"
		if bytes.Equal(p[0], p[1]) {
			label = "true"
		}
		emit(Op{"op": "hash-equal", "class": "hash-equal", "label": label, "fkey": "C10/hash-prefix-equality", "a": hb(p[0]), "b": hb(p[1])})
	}
	for _, hh := range [][]byte{h, h[:33], h[:2], {}, {0x12}, {0x11, 0x14, 1, 2}, append([]byte{0x13, 0x20}, h[2:]...), append([]byte{0x12, 0x21}, h[2:]...), {0x12, 0x00}, append([]byte{0x12, 0x80, 0x01}, make([]byte, 128)...)} {
		emit(Op{"op": "hash-alg", "class": "hash-alg", "h": hb(hh)})
	}
	for i := 0; i < 20; i++ {
		e := absEvent{uint64(g.intn(1000)), g.bits(1 + g.intn(200)), refHash(absEvent{1, bi(3), g.bytes(34)})}
		if g.intn(4) == 0 {
			e.Parent = g.bytes(g.intn(40))
		}
		emit(Op{"op": "event-hash", "class": "event-hash", "i": hxi(int64(e.Index)), "e": hx(e.E), "parent": hb(e.Parent)})
	}
	for _, kp := range keys[:1] {
		c := buildChain(g, kp, maxLen+1)
		for _, transport := range []string{"mem", "json", "cbor"} {
			for length := 0; length <= maxLen; length++ {
				for from := 1; from+length <= len(c.evs); from += 1 + g.intn(2) {
					to := from + length - 1
					accIdx := to
					if length == 0 {
						accIdx = from
						if accIdx >= len(c.signed) {
							continue
						}
					}
					evs := cloneEvs(c.evs[from : to+1])
					data := c.signed[accIdx]
					counter := int(kp.pk.Counter)
					emit(c.updateOp(evs, accIdx, data, counter, kp, transport, "honest"))
					if length == 0 {
						continue
					}
					type mut struct {
						name string
						f    func(evs []absEvent) ([]absEvent, []byte, int, *KeyPair)
					}
					id := func(evs []absEvent) ([]absEvent, []byte, int, *KeyPair) { return evs, data, counter, kp }
					_ = id
					muts := []mut{}
					for i := 0; i < length; i++ {
						i := i
						muts = append(muts,
							mut{"event-value", func(evs []absEvent) ([]absEvent, []byte, int, *KeyPair) {
								evs[i].E = new(big.Int).Add(evs[i].E, bi(2))
								return evs, data, counter, kp
							}},
							mut{"event-index", func(evs []absEvent) ([]absEvent, []byte, int, *KeyPair) {
								evs[i].Index += uint64(1 + g.intn(3))
								return evs, data, counter, kp
							}},
							mut{"parent-byte", func(evs []absEvent) ([]absEvent, []byte, int, *KeyPair) {
								evs[i].Parent[2+g.intn(32)] ^= 1 << uint(g.intn(8))
								return evs, data, counter, kp
							}},
							mut{"parent-truncated", func(evs []absEvent) ([]absEvent, []byte, int, *KeyPair) {
								evs[i].Parent = evs[i].Parent[:len(evs[i].Parent)-1-g.intn(3)]
								return evs, data, counter, kp
							}},
							mut{"parent-extended", func(evs []absEvent) ([]absEvent, []byte, int, *KeyPair) {
								evs[i].Parent = append(evs[i].Parent, g.bytes(1+g.intn(2))...)
								return evs, data, counter, kp
							}},
							mut{"parent-alg-code", func(evs []absEvent) ([]absEvent, []byte, int, *KeyPair) {
								evs[i].Parent[0] = []byte{0x11, 0x13, 0x16, 0x00}[g.intn(4)]
								return evs, data, counter, kp
							}},
							mut{"parent-shifted-into-E", func(evs []absEvent) ([]absEvent, []byte, int, *KeyPair) {
								// move the last byte(s) of the parent hash in front of the bytes of E:
								// the hashed byte string index||parent||E stays the same
								k := 1 + g.intn(2)
								p := evs[i].Parent
								moved := p[len(p)-k:]
								if moved[0] == 0 {
									moved[0] = 1 // a leading zero byte would vanish in E; keep the alias exact otherwise
									return evs, data, counter, kp
								}
								evs[i].E = new(big.Int).SetBytes(append(append([]byte{}, moved...), evs[i].E.Bytes()...))
								evs[i].Parent = p[:len(p)-k]
								return evs, data, counter, kp
							}},
							mut{"E-shifted-into-parent", func(evs []absEvent) ([]absEvent, []byte, int, *KeyPair) {
								// move the leading byte(s) of E onto the tail of the parent hash: the hashed
								// byte string index||parent||E stays the same, the event does not
								eb := evs[i].E.Bytes()
								k := 1 + g.intn(2)
								if len(eb) <= k || eb[k] == 0 {
									evs[i].E = new(big.Int).Add(evs[i].E, bi(2))
									return evs, data, counter, kp
								}
								evs[i].Parent = append(append([]byte{}, evs[i].Parent...), eb[:k]...)
								evs[i].E = new(big.Int).SetBytes(eb[k:])
								return evs, data, counter, kp
							}},
							mut{"event-deleted", func(evs []absEvent) ([]absEvent, []byte, int, *KeyPair) {
								return append(evs[:i], evs[i+1:]...), data, counter, kp
							}},
							mut{"event-inserted", func(evs []absEvent) ([]absEvent, []byte, int, *KeyPair) {
								ne := absEvent{evs[i].Index, g.bits(100), append([]byte{}, evs[i].Parent...)}
								r := append(append(append([]absEvent{}, evs[:i]...), ne), evs[i:]...)
								return r, data, counter, kp
							}},
						)
						if i+1 < length {
							muts = append(muts, mut{"events-swapped", func(evs []absEvent) ([]absEvent, []byte, int, *KeyPair) {
								evs[i], evs[i+1] = evs[i+1], evs[i]
								return evs, data, counter, kp
							}})
						}
					}
					muts = append(muts,
						mut{"sig-byte", func(evs []absEvent) ([]absEvent, []byte, int, *KeyPair) {
							d := append([]byte{}, data...)
							d[len(d)-1-g.intn(40)] ^= 0x10
							return evs, d, counter, kp
						}},
						mut{"msg-byte", func(evs []absEvent) ([]absEvent, []byte, int, *KeyPair) {
							d := append([]byte{}, data...)
							d[10+g.intn(40)] ^= 0x01
							return evs, d, counter, kp
						}},
						mut{"wrong-counter", func(evs []absEvent) ([]absEvent, []byte, int, *KeyPair) {
							return evs, data, counter + 1, kp
						}},
						mut{"other-accumulator", func(evs []absEvent) ([]absEvent, []byte, int, *KeyPair) {
							j := accIdx - 1
							if j < 0 {
								j = accIdx + 1
							}
							if j >= len(c.signed) {
								j = 0
							}
							return evs, c.signed[j], counter, kp
						}},
						mut{"other-verifier-key", func(evs []absEvent) ([]absEvent, []byte, int, *KeyPair) {
							return evs, data, counter, kb
						}},
						mut{"resigned-altered-accumulator", func(evs []absEvent) ([]absEvent, []byte, int, *KeyPair) {
							a := *c.accs[accIdx]
							switch g.intn(3) {
							case 0:
								a.Index += 1
							case 1:
								a.Nu = new(big.Int).Add(a.Nu, bi(1))
							default:
								a.EventHash = revocation.Hash(refHash(absEvent{9, bi(9), make([]byte, 34)}))
							}
							s, _ := a.Sign(kb.sk) // signed by a key the verifier does not trust
							return evs, s.Data, counter, kp
						}},
					)
					for _, m := range muts {
						e2, d2, c2, v2 := m.f(cloneEvs(evs))
						emit(c.updateOp(e2, accIdx, d2, c2, v2, transport, m.name))
					}
					// the message without its signed accumulator
					if len(evs) >= 1 {
						o := c.updateOp(cloneEvs(evs), accIdx, data, counter, kp, "mem", "x")
						o["class"], o["label"], o["nomodel"] = "update-without-accumulator-"+transport, "reject", true
						o["transport"], o["nosacc"], o["fkey"] = transport, true, "C10/update-without-accumulator"
						emit(o)
					}
					// an event value that is absent (each position, the last one included)
					if (transport == "mem" || transport == "json") && len(evs) >= 1 {
						for i := range evs {
							o := c.updateOp(cloneEvs(evs), accIdx, data, counter, kp, "mem", "x")
							o["class"], o["label"], o["nomodel"] = "event-value-null-"+transport, "reject", true
							o["transport"], o["nullify"], o["fkey"] = transport, i, "C10/event-value-null"
							emit(o)
						}
					}
					// the genuine message decoded from the wire, its event objects altered afterwards
					// (each event in turn: value, index, parent hash): what is verified is what is there now
					if transport != "mem" && len(evs) >= 2 {
						for i := range evs {
							for _, what := range []string{"value", "index", "parent"} {
								alt := cloneEvs(evs)
								switch what {
								case "value":
									alt[i].E = new(big.Int).Add(alt[i].E, bi(2))
								case "index":
									alt[i].Index += 7
								case "parent":
									alt[i].Parent = refHash(absEvent{alt[i].Index, bi(3), alt[i].Parent})
								}
								o := c.updateOp(alt, accIdx, data, counter, kp, "mem", "decoded-then-altered-"+what)
								o["class"] = "decoded-then-altered-" + what + "-" + transport
								o["transport"] = transport
								o["post"] = o["events"]
								o["events"] = c.updateOp(cloneEvs(evs), accIdx, data, counter, kp, "mem", "x")["events"]
								o["fkey"] = "C10/decoded-then-altered"
								emit(o)
							}
						}
					}
					// the framing of the signed message itself (a CBOR map of message and signature): an
					// entry lost, renamed or emptied, each right after the genuine message has been
					// verified (nothing of an earlier verification may fill the gap)
					if len(evs) > 0 {
						framings := [][]byte{{0xa0}, {0xa1}, {}}
						for k := 0; k < 10 && k < len(data); k++ {
							d := append([]byte{}, data...)
							d[k] ^= 0x01
							framings = append(framings, d)
						}
						for _, d := range framings {
							emit(c.updateOp(cloneEvs(evs), accIdx, data, counter, kp, transport, "genuine-before-framing"))
							o := c.updateOp(cloneEvs(evs), accIdx, d, counter, kp, transport, "signed-message-framing")
							o["fkey"] = "C10/signed-message-framing"
							emit(o)
						}
					}
					// double corruptions (sample)
					for k := 0; k < ndouble/maxLen/3+1; k++ {
						m1, m2 := muts[g.intn(len(muts))], muts[g.intn(len(muts))]
						e2, d2, c2, v2 := m1.f(cloneEvs(evs))
						if len(e2) == 0 || len(e2) != len(evs) {
							continue
						}
						func() {
							defer func() { recover() }()
							e3, d3, c3, v3 := m2.f(e2)
							_, _, _ = d2, c2, v2
							emit(c.updateOp(e3, accIdx, d3, c3, v3, transport, "double"))
						}()
					}
				}
			}
		}
		// Prepend: older events in front of an update
		n := len(c.evs) - 1
		for a := 2; a <= n; a++ {
			for lo := 1; lo < a; lo++ {
				for hi := lo; hi <= n && hi <= a+1; hi++ {
					evs := c.evs[a : n+1]
					pre := cloneEvs(c.evs[lo : hi+1])
					class := "prepend"
					if g.intn(4) == 0 {
						pre[g.intn(len(pre))].E = g.bits(90)
						class = "prepend-corrupt"
					}
					for _, wire := range []string{"", "json", "cbor"} {
						pre := pre
						class := class
						if wire != "" {
							if (a+lo+hi)%2 == 0 && tier != "thorough" && class == "prepend" {
								continue
							}
							// what the decoder makes of the list (it recomputes the parent hashes)
							pre = absEvents(wireEventList(revocation.NewEventList(goEvents(pre)...), wire))
							class += "-" + wire
						}
						merged := append(append([]absEvent{}, pre...), func() []absEvent {
							mn := 1 + int(pre[len(pre)-1].Index) - int(evs[0].Index)
							if mn < 0 || mn > len(evs) {
								return nil
							}
							return evs[mn:]
						}()...)
						ok := int(pre[len(pre)-1].Index)+1 >= int(evs[0].Index) && 1+int(pre[len(pre)-1].Index)-int(evs[0].Index) <= len(evs) &&
							specVerify(merged, true, true, c.accs[n].EventHash)
						exp := evs
						label := "err"
						if ok {
							exp, label = merged, "ok"
						}
						_ = exp
						te := func(l []absEvent) []any {
							r := make([]any, len(l))
							for i, e := range l {
								r[i] = e.tree()
							}
							return r
						}
						_, av := sigView(c.signed[n], kp.pk.ECDSA)
						emit(Op{"op": "update-prepend", "class": class, "label": label, "key": kp.id,
							"events": te(evs), "prepend": te(pre), "wire": wire,
							"sacc":      map[string]any{"nu": av.Nu.Text(16), "index": hxi(int64(av.Index)), "time": hxi(av.Time), "eventhash": hb(av.EventHash), "pk": int(kp.pk.Counter), "sigok": true},
							"saccbytes": map[string]any{"data": hb(c.signed[n]), "pk": int(kp.pk.Counter)}})
						// the same list re-indexed far beyond the update (its last index = the update's first
						// index + 2^63 - 1, where a difference of indices no longer fits a signed word)
						if wire == "" && len(evs) > 0 {
							far := cloneEvs(pre)
							shift := evs[0].Index + (uint64(1) << 63) - 1 - far[len(far)-1].Index
							for i := range far {
								far[i].Index += shift
							}
							emit(Op{"op": "update-prepend", "class": "prepend-reindexed-far", "label": "err", "nomodel": true, "fkey": "C10/prepend-reindexed-far", "key": kp.id,
								"events": te(evs), "prepend": te(far), "wire": wire,
								"saccbytes": map[string]any{"data": hb(c.signed[n]), "pk": int(kp.pk.Counter)}})
						}
					}
				}
			}
		}
	}
}
