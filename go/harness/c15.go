package main

import (
	"crypto/sha256"
	"fmt"
	gobig "math/big"
	"strconv"
	"strings"
	"sync"

	"github.com/privacybydesign/gabi"
	"github.com/privacybydesign/gabi/big"
)

// C15: Fiat-Shamir challenge encoding equals its specification.

// sameFromAll evaluates f in several goroutines at once (and once more afterwards): the hash
// helpers are called from concurrent sessions, their value is a function of the argument alone.
func sameFromAll(f func() string) string {
	const n = 6
	res := make([]string, n+1)
	var wg sync.WaitGroup
	for i := 0; i < n; i++ {
		wg.Add(1)
		go func(i int) {
			defer wg.Done()
			defer func() {
				if recover() != nil {
					res[i] = "panic"
				}
			}()
			for k := 0; k < 3; k++ {
				res[i] = f()
			}
		}(i)
	}
	wg.Wait()
	res[n] = f()
	for _, r := range res {
		if r != res[n] {
			return "unstable " + res[n] + " / " + r
		}
	}
	return res[n]
}

func init() {
	generators["C15"] = genC15
	executors["hashcommit"] = func(o Op) string {
		vals, issig := unhxs(o["vals"]), o.boolean("issig")
		return sameFromAll(func() string { return showInt(gabi.VerifHashCommit(vals, issig)) })
	}
	executors["inthash"] = func(o Op) string {
		data := unhb(o["data"])
		return sameFromAll(func() string { return showInt(gabi.VerifIntHashSha256(data)) })
	}
	// many sessions hashing different oversized attributes at the same time: every result is the
	// digest of its own input
	executors["inthash-concurrent"] = func(o Op) string {
		var inputs [][]byte
		for _, x := range o["inputs"].([]any) {
			inputs = append(inputs, unhb(x))
		}
		rounds := o.int("rounds")
		bad := make([]int, len(inputs))
		last := make([]string, len(inputs))
		var wg sync.WaitGroup
		for i := range inputs {
			wg.Add(1)
			go func(i int) {
				defer wg.Done()
				want := sha256.Sum256(inputs[i])
				for r := 0; r < rounds; r++ {
					func() {
						defer func() {
							if recover() != nil {
								bad[i]++
							}
						}()
						got := gabi.VerifIntHashSha256(inputs[i])
						if got.Go().Cmp(new(gobig.Int).SetBytes(want[:])) != 0 {
							bad[i]++
						}
						last[i] = showInt(got)
					}()
				}
			}(i)
		}
		wg.Wait()
		nbad := 0
		for _, b := range bad {
			nbad += b
		}
		if nbad > 0 {
			return fmt.Sprintf("wrong-digests %d of %d", nbad, rounds*len(inputs))
		}
		return "ok " + strings.Join(last, ",")
	}
	executors["sha256"] = func(o Op) string {
		// via IntHashSha256: the digest as integer, re-padded to 32 bytes
		x := gabi.VerifIntHashSha256(unhb(o["data"]))
		b := x.Bytes()
		out := make([]byte, 32)
		copy(out[32-len(b):], b)
		return hb(out)
	}
	executors["hashnumber"] = func(o Op) string {
		a, b, idx, bl := unhx(o["a"]), unhx(o["b"]), int(unhx(o["index"]).Int64()), uint(unhx(o["bitlen"]).Uint64())
		return sameFromAll(func() string { return showInt(gabi.VerifGetHashNumber(a, b, idx, bl)) })
	}
	executors["challenge"] = func(o Op) string {
		ctx, nonce, contribs, issig := unhx(o["context"]), unhx(o["nonce"]), unhxs(o["contribs"]), o.boolean("issig")
		return sameFromAll(func() string { return showInt(gabi.VerifCreateChallenge(ctx, nonce, contribs, issig)) })
	}
}

// interesting integer of about `bits` bits for DER boundary coverage
func derInteresting(g *Rng, bits int) *big.Int {
	var x *big.Int
	switch g.intn(8) {
	case 0:
		x = big.NewInt(0)
	case 1: // 2^k - 1
		x = new(big.Int).Lsh(big.NewInt(1), uint(bits))
		x.Sub(x, big.NewInt(1))
	case 2: // 2^k
		x = new(big.Int).Lsh(big.NewInt(1), uint(bits))
	case 3: // leading 0x80 byte
		k := (bits/8)*8 + 7
		x = new(big.Int).Lsh(big.NewInt(1), uint(k))
		x.Add(x, g.bits(k))
	case 4: // 2^(8k-1) ± 1 boundary of sign byte
		k := (bits/8)*8 + 7
		x = new(big.Int).Lsh(big.NewInt(1), uint(k))
		if g.coin() {
			x.Sub(x, big.NewInt(1))
		} else {
			x.Add(x, big.NewInt(1))
		}
	default:
		x = g.bits(bits)
	}
	if g.intn(4) == 0 {
		x.Neg(x)
	}
	return x
}

func genC15(g *Rng, tier string, emit func(Op)) {
	nLists := 400
	if tier == "thorough" {
		nLists = 20000
	}
	{
		var inputs []any
		for i := 0; i < 16; i++ {
			inputs = append(inputs, hb(g.bytes(40+g.intn(900))))
		}
		rounds := 3000
		if tier == "thorough" {
			rounds = 40000
		}
		emit(Op{"op": "inthash-concurrent", "class": "inthash-concurrent", "label": "ok", "inputs": inputs, "rounds": rounds})
	}
	attributeHashThresholdOps(g, "C15/attribute-hash-threshold", emit)
	// the attribute hash is over the magnitude: a negative number longer than the message length
	// never stands for its absolute value, at whatever position of the block (first included)
	{
		kp := fixedKey("k1024a", false)
		for j := 0; j < 3; j++ {
			ms := []*big.Int{g.bits(100), g.bits(100), g.bits(100)}
			ms[j] = g.exactBits(int(kp.pk.Params.Lm) + 1 + g.intn(300))
			sig, err := gabi.SignMessageBlock(kp.sk, kp.pk, ms)
			if err != nil {
				panic(err)
			}
			emit(sigOp(kp.id, sig, ms, "oversized-message-at-"+strconv.Itoa(j), "accept"))
			neg := append([]*big.Int{}, ms...)
			neg[j] = new(big.Int).Neg(ms[j])
			emit(sigOp(kp.id, sig, neg, "negated-oversized-message-at-"+strconv.Itoa(j), "reject").with("fkey", "C15/negated-oversized-message"))
		}
	}
	// "differs whenever any integer differs", at the level of proofs: the group elements a proof
	// carries enter the hash as the integers they are, not as residues - moved by multiples of the
	// modulus they are other integers
	{
		kp := fixedKey("k1024a", false)
		for _, spec := range []builderSpec{{kp: kp, issuance: true}, {kp: kp}} {
			ses := buildSession(g, []builderSpec{spec}, randSecret(g), false)
			name := "A"
			if spec.issuance {
				name = "U"
			}
			for _, k := range []int64{1, 2, 1 << 40} {
				t2 := cloneTree(any(ses.trees)).([]any)
				el := leafInt(t2[0], []any{name})
				if el == nil {
					continue
				}
				t2[0].(T)[name] = I(new(big.Int).Add(el, new(big.Int).Mul(bi(k), kp.pk.N)))
				emit(listOp(ses.keys, t2, ses.ctx, ses.nonce, false, nil, "group-element-plus-multiple-of-N-"+name, "reject").with("fkey", "C15/group-element-residue"))
			}
		}
	}
	// the challenge of an honest proof is the hash of the proof's own contributions - also for a
	// non-revocation commitment that was prepared in advance and refreshed after the accumulator
	// moved on (what the prover hashed is what the verifier reconstructs)
	emit(inflightRefreshOp(g, fixedKey("k1024a", true), 3))
	// the integers in order: a proof with range statements on several hidden attributes contributes
	// their commitments in ascending attribute order, on the prover's and on the verifier's side, every time
	{
		kp := fixedKey("k1024a", false)
		emit(declSk(kp))
		secret := randSecret(g)
		for _, idxs := range [][]int{{1, 2}, {4, 3, 2, 1}, {2, 4}} {
			var stmts []any
			for j, idx := range idxs {
				v := g.bits(50)
				stmts = append(stmts, []any{hxi(int64(idx)), hx(v), hxi(1), hxi(1), hx(new(big.Int).Sub(v, bi(int64(3+j)))), hxi(0)})
			}
			emit(Op{"op": "rp-complete-multi", "class": "range-commitments-in-attribute-order", "label": "ok", "nomodel": true, "fkey": "C15/contribution-order",
				"key": kp.id, "secret": hx(secret), "nattr": 4, "stmts": stmts, "disclosed": intsAny(nil), "reps": 12})
		}
	}
	// content-length boundaries (bytes): 127/128/255/256/65535
	lenBounds := []int{0, 1, 7, 8, 126 * 8, 127 * 8, 128 * 8, 255 * 8, 256 * 8, 257 * 8}
	// fixed corpus first
	fixed := [][]*big.Int{
		{}, {big.NewInt(0)}, {big.NewInt(1), big.NewInt(2), big.NewInt(3)},
		{big.NewInt(-1)}, {big.NewInt(127)}, {big.NewInt(128)}, {big.NewInt(-128)}, {big.NewInt(-129)},
		{big.NewInt(255)}, {big.NewInt(256)}, {big.NewInt(-256)}, {big.NewInt(-257)},
	}
	for _, l := range fixed {
		for _, sig := range []bool{false, true} {
			emit(Op{"ref": true, "op": "hashcommit", "class": "fixed", "vals": hxs(l), "issig": sig})
		}
	}
	// list lengths crossing the sequence length boundaries (127/128/255/256/65535 bytes of body)
	for _, n := range []int{0, 1, 2, 41, 42, 43, 84, 85, 86, 127, 128, 129, 255, 256, 300} {
		l := make([]*big.Int, n)
		for i := range l {
			l[i] = g.bits(1 + g.intn(16))
		}
		emit(Op{"ref": true, "op": "hashcommit", "class": "seqlen", "vals": hxs(l), "issig": g.coin()})
	}
	// a body of > 65535 bytes
	{
		l := make([]*big.Int, 30)
		for i := range l {
			l[i] = g.exactBits(4500 + g.intn(500))
		}
		emit(Op{"ref": true, "op": "hashcommit", "class": "seqlen-64k", "vals": hxs(l), "issig": false})
		l2 := make([]*big.Int, 120)
		for i := range l2 {
			l2[i] = g.exactBits(4500 + g.intn(500))
		}
		emit(Op{"ref": true, "op": "hashcommit", "class": "seqlen-64k", "vals": hxs(l2), "issig": true})
	}
	for i := 0; i < nLists; i++ {
		n := g.intn(6)
		if g.intn(10) == 0 {
			n = g.intn(300)
		}
		l := make([]*big.Int, n)
		for j := range l {
			bits := lenBounds[g.intn(len(lenBounds))] + g.intn(3) - 1
			if g.intn(3) == 0 {
				bits = g.intn(5000)
			}
			if bits < 0 {
				bits = 0
			}
			l[j] = derInteresting(g, bits)
		}
		emit(Op{"ref": true, "op": "hashcommit", "class": "random", "vals": hxs(l), "issig": g.coin()})
	}
	// attribute hash / sha256
	for _, n := range []int{0, 1, 3, 55, 56, 57, 63, 64, 65, 119, 120, 128, 1000} {
		emit(Op{"ref": true, "op": "inthash", "class": "pad-boundary", "data": hb(g.bytes(n))})
		emit(Op{"ref": true, "op": "sha256", "class": "pad-boundary", "data": hb(g.bytes(n))})
	}
	emit(Op{"ref": true, "op": "sha256", "class": "nist", "data": hb([]byte("abc"))})
	emit(Op{"ref": true, "op": "sha256", "class": "nist", "data": hb([]byte("abcdbcdecdefdefgefghfghighijhijkijkljklmklmnlmnomnopnopq"))})
	for i := 0; i < nLists/4; i++ {
		emit(Op{"ref": true, "op": "inthash", "class": "random", "data": hb(g.bytes(g.intn(700)))})
	}
	// hash-to-number expansion
	for i := 0; i < nLists/2; i++ {
		var a, b *big.Int
		if g.intn(4) != 0 {
			a = g.bits(1 + g.intn(2100))
		}
		if g.intn(4) != 0 {
			b = g.bits(1 + g.intn(2100))
		}
		bl := []int{0, 1, 255, 256, 257, 511, 512, 513, 1024, 2048}[g.intn(10)]
		if g.intn(3) == 0 {
			bl = g.intn(3000)
		}
		emit(Op{"ref": true, "op": "hashnumber", "class": "random", "a": hx(a), "b": hx(b), "index": hxi(int64(g.intn(100000))), "bitlen": hxi(int64(bl))})
	}
	// every number of contributions a proof list may have: 0 .. 70 (a list of n proofs contributes
	// 2n numbers, more with non-revocation and range parts), both session kinds; likewise for the
	// plain hash
	for n := 0; n <= 70; n++ {
		l := make([]*big.Int, n)
		for j := range l {
			l[j] = g.bits(1 + g.intn(1024))
		}
		for _, issig := range []bool{false, true} {
			emit(Op{"ref": true, "op": "challenge", "class": "every-count", "context": hx(g.bits(256)), "nonce": hx(g.bits(128)), "contribs": hxs(l), "issig": issig})
			emit(Op{"ref": true, "op": "hashcommit", "class": "every-count", "vals": hxs(l), "issig": issig})
		}
	}
	// every total content length of the outer SEQUENCE around the points where the DER length form
	// changes (127/128, 255/256, 65535/65536): one integer of k octets, k swept
	sweep := func(lo, hi int) {
		for k := lo; k <= hi; k++ {
			b := g.bytes(k)
			b[0] = 0x40 | b[0]&0x7f // exactly k content octets, positive
			x := new(big.Int).SetBytes(b)
			for _, issig := range []bool{false, true} {
				emit(Op{"ref": true, "op": "hashcommit", "class": "content-length-sweep", "vals": hxs([]*big.Int{x}), "issig": issig})
			}
		}
	}
	sweep(100, 140)
	sweep(235, 265)
	// around 65535/65536 octets of content: 117 integers of 556 content octets (560 with their
	// headers) and one whose size is swept (single huge integers are slow in the model)
	for k := 5; k <= 14; k++ {
		l := make([]*big.Int, 118)
		for i := range l {
			b := g.bytes(556)
			if i == 117 {
				b = g.bytes(k)
			}
			b[0] = 0x40 | b[0]&0x7f
			l[i] = new(big.Int).SetBytes(b)
		}
		for _, issig := range []bool{false, true} {
			emit(Op{"ref": true, "op": "hashcommit", "class": "content-length-sweep-64k", "vals": hxs(l), "issig": issig})
		}
	}
	// challenge sandwich
	for i := 0; i < nLists/2; i++ {
		n := g.intn(8)
		l := make([]*big.Int, n)
		for j := range l {
			l[j] = g.bits(1 + g.intn(2048))
		}
		emit(Op{"ref": true, "op": "challenge", "class": "random", "context": hx(g.bits(256)), "nonce": hx(g.bits(128)), "contribs": hxs(l), "issig": g.coin()})
	}
	_ = gobig.NewInt
}

// attributeHashThresholdOps: the attribute hash as issuer, prover and verifier apply it: a value is
// hashed exactly when it is longer than the message length of the key's parameter set - also in the
// set whose message length (512) differs from its hash length (256). A value the issuer signed as
// it is, is accepted as it is; a credential over the digest of x does not disclose x where x fits
// the message length (and the other way round).
func attributeHashThresholdOps(g *Rng, fkey string, emit func(Op)) {
	// the attribute hash as the verifier applies it: a disclosed attribute is hashed exactly when it
	// is longer than the message length of the key's parameter set - also in the set whose message
	// length (512) differs from its hash length (256). A value the issuer signed as it is, is accepted
	// as it is; a credential over the digest of x does not disclose x where x fits the message length.
	for _, kp := range []*KeyPair{fixedKey("k1024a", false), key4096("k4096", 3)} {
		emit(declKey(kp))
		lm := int(kp.pk.Params.Lm)
		for _, bits := range []int{200, 255, 256, 257, 300, 400, 511, 512, 513, 600, 1100} {
			x := g.exactBits(bits)
			cred := issueCred(kp, randSecret(g), []*big.Int{x, g.bits(60)})
			ctx, nonce := g.bits(256), g.bits(80)
			p, err := cred.CreateDisclosureProof([]int{1}, nil, false, ctx, nonce)
			if err != nil {
				panic(err)
			}
			emit(verifyDOp(kp.id, proofDTree(p), ctx, nonce, false, fmt.Sprintf("attribute-hash-in-verification-lm%d", lm), "accept").with("fkey", fkey))
			if bits > 256 && bits <= lm {
				h := gabi.VerifIntHashSha256(x.Bytes())
				credH := issueCred(kp, randSecret(g), []*big.Int{h, g.bits(60)})
				ph, err := credH.CreateDisclosureProof([]int{1}, nil, false, ctx, nonce)
				if err != nil {
					panic(err)
				}
				t := proofDTree(ph)
				t["a_disclosed"].(T)["1"] = I(x)
				emit(verifyDOp(kp.id, t, ctx, nonce, false, "preimage-for-signed-digest", "reject").with("fkey", fkey))
			}
		}
	}
}
