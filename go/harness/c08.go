package main

import (
	"encoding/json"
	"fmt"
	"sort"
	"strconv"

	"github.com/privacybydesign/gabi"
	"github.com/privacybydesign/gabi/big"
)

// C08: verifying untrusted proofs never panics; malformed lists are rejected.

func init() {
	generators["C08"] = genC08
	// rawlist: a literal JSON document (byte-level stream) straight into the real decoder and
	// verifier; no model counterpart, the label only demands "no panic".
	executors["rawlist"] = func(o Op) string {
		pks := keysOf(o, "keys")
		raw := []byte(o.str("json"))
		return safely(func() string {
			var pl gabi.ProofList
			if err := json.Unmarshal(raw, &pl); err != nil {
				return "decode-error"
			}
			return verdict(pl.Verify(pks, unhx(o["context"]), unhx(o["nonce"]), false, nil))
		})
	}
	executors["rawcommit"] = func(o Op) string {
		pks := keysOf(o, "keys")
		raw := []byte(o.str("json"))
		return safely(func() string {
			var msg gabi.IssueCommitmentMessage
			if err := json.Unmarshal(raw, &msg); err != nil {
				return "decode-error"
			}
			return verdict(msg.Proofs.Verify(pks, unhx(o["context"]), unhx(o["nonce"]), false, nil))
		})
	}
}

func isEmptyNode(n any) bool {
	switch v := n.(type) {
	case nil:
		return true
	case int:
		return v == 0 // the zero value: absent and present mean the same
	case uint64:
		return v == 0
	case bool:
		return !v
	case map[string]any:
		if _, ok := isLeafI(v); ok {
			return false
		}
		if _, ok := isLeafB(v); ok {
			return false
		}
		return len(v) == 0
	case []any:
		return len(v) == 0
	}
	return false
}

func isMapNode(n any) bool {
	m, ok := n.(map[string]any)
	if !ok {
		return false
	}
	if _, ok := isLeafI(m); ok {
		return false
	}
	if _, ok := isLeafB(m); ok {
		return false
	}
	return true
}

func intKeyed(m map[string]any) bool {
	if len(m) == 0 {
		return false
	}
	for k := range m {
		if _, err := strconv.Atoi(k); err != nil {
			return false
		}
	}
	return true
}

func genC08(g *Rng, tier string, emit func(Op)) {
	ka, kb := fixedKey("k1024a", true), fixedKey("k1024b", false)
	emit(declKey(ka))
	emit(declKey(kb))
	nmut := 60
	nseeds := 6
	if tier == "thorough" {
		nmut = 2500
		nseeds = 16
	}
	const never = "accept|reject|decode-error" // i.e. anything but a panic
	// hand-written corpus first (each was a panic before the repairs)
	corpus := []string{
		`[{"A":"AQ=="}]`, `[{"U":"AQ=="}]`, `[{}]`, `[null]`, `null`, `[]`, `[{"A":"AQ==","c":"AQ=="}]`,
		`[{"A":"AQ==","c":"AQ==","e_response":"AQ==","v_response":"AQ==","a_responses":{"1000":"AQ=="},"a_disclosed":{}}]`,
		`[{"A":"AQ==","c":"AQ==","e_response":"AQ==","v_response":"AQ==","a_responses":{"-1":"AQ=="},"a_disclosed":{}}]`,
		`[{"A":"AQ==","c":"AQ==","e_response":"AQ==","v_response":"AQ==","a_responses":{"0":null},"a_disclosed":{"1":null}}]`,
		`[{"A":"AQ==","c":"AQ==","e_response":"AQ==","v_response":"AQ==","a_responses":{"0":"AQ=="},"a_disclosed":{},"nonrev_proof":{}}]`,
		`[{"A":"AQ==","c":"AQ==","e_response":"AQ==","v_response":"AQ==","a_responses":{"0":"AQ=="},"a_disclosed":{},"nonrev_proof":{"responses":{}}}]`,
		`[{"A":"AQ==","c":"AQ==","e_response":"AQ==","v_response":"AQ==","a_responses":{"0":"AQ=="},"a_disclosed":{},"rangeproofs":{"0":[null]}}]`,
		`[{"A":"AQ==","c":"AQ==","e_response":"AQ==","v_response":"AQ==","a_responses":{"0":"AQ=="},"a_disclosed":{"1":"AQ=="},"rangeproofs":{"1":[{"Cs":["AQ==","AQ==","AQ=="],"a":4,"k":"AQ==","sign":1}]}}]`,
		`[{"A":"AQ==","c":"AQ==","e_response":"AQ==","v_response":"AQ==","a_responses":{"0":"AQ=="},"a_disclosed":{},"rangeproofs":{"0":[{"Cs":["AQ==","AQ==","AQ=="],"a":4,"k":"AQ==","sign":1}]}}]`,
		`[{"U":"AQ==","c":"AQ==","v_prime_response":"AQ==","s_response":"AQ==","m_user_responses":{"77":"AQ=="}}]`,
		`[{"U":"AQ==","c":"AQ==","v_prime_response":"AQ==","s_response":"AQ==","m_user_responses":{"1":null}}]`,
		`[{"U":"AQ==","c":null,"v_prime_response":"AQ==","s_response":"AQ=="}]`,
		`[{"U":"AA==","c":"AQ==","v_prime_response":"AQ==","s_response":"AQ=="}]`,
	}
	for _, c := range corpus {
		emit(Op{"op": "rawlist", "class": "corpus", "label": "reject|decode-error", "nomodel": true, "keys": []any{ka.id}, "json": c, "context": hxi(1), "nonce": hxi(1)})
		emit(Op{"op": "rawcommit", "class": "corpus-commit", "label": "reject|decode-error", "nomodel": true, "keys": []any{ka.id},
			"json": `{"n_2":"AQ==","combinedProofs":` + c + `}`, "context": hxi(1), "nonce": hxi(1)})
	}
	for si := 0; si < nseeds; si++ {
		// seed lists: disclosure / issuance, with non-revocation and range parts
		n := 1 + si%3
		specs := make([]builderSpec, n)
		for i := range specs {
			kp := ka
			if g.intn(3) == 0 {
				kp = kb
			}
			specs[i] = builderSpec{kp: kp, issuance: g.intn(3) == 0, nonrev: kp == ka && si%2 == 0, rng: g.coin()}
		}
		if si%2 == 0 {
			// every other seed list has a disclosure proof with a non-revocation part for certain
			specs[0] = builderSpec{kp: ka, nonrev: true, rng: specs[0].rng}
		}
		s := buildSession(g, specs, randSecret(g), false)
		emit(listOp(s.keys, s.trees, s.ctx, s.nonce, false, nil, "seed", "accept"))
		// a proof with a non-revocation part presented under a key WITHOUT revocation support (an
		// issuer's older key), the unsigned key counter of the embedded accumulator rewritten to that
		// key's counter so that the counter comparison passes
		for pi, ptree := range s.trees {
			pt, _ := ptree.(T)
			nr, _ := pt["nonrev_proof"].(T)
			if nr == nil {
				continue
			}
			for _, ctr := range []int{int(kb.pk.Counter), int(kb.pk.Counter) + 1} {
				t2 := cloneTree(any(s.trees)).([]any)
				if sa, ok := t2[pi].(T)["nonrev_proof"].(T)["sacc"].(T); ok {
					sa["pk"] = ctr
				}
				k2 := append([]*KeyPair{}, s.keys...)
				k2[pi] = kb
				o := listOp(k2, t2, s.ctx, s.nonce, false, nil, "nonrev-under-key-without-revocation", "reject")
				o["sigviews"] = sigViews(any(t2), []*KeyPair{ka})
				emit(o)
			}
		}
		// the number of proofs differs from the number of keys while the keyshare labelling has the
		// length of the proof list (a proof duplicated / dropped in transit)
		{
			dup := append(cloneTree(any(s.trees)).([]any), cloneTree(s.trees[0]))
			for _, lab := range []string{"", "kss"} {
				kss := make([]string, len(dup))
				for i := range kss {
					kss[i] = lab
				}
				emit(listOp(s.keys, dup, s.ctx, s.nonce, false, kss, "more-proofs-than-keys-labelled", "reject|decode-error"))
				if len(s.trees) > 1 {
					emit(listOp(s.keys, cloneTree(any(s.trees[:len(s.trees)-1])).([]any), s.ctx, s.nonce, false, kss[:len(s.trees)-1], "fewer-proofs-than-keys-labelled", "reject|decode-error"))
				}
			}
		}
		root := any(T{"l": any(s.trees)}) // holder, so that list elements themselves can be removed
		paths := allPaths(root)
		// two cooperating sites: an index that is neither disclosed nor hidden (its disclosed entry
		// removed) combined with a range proof / response re-keyed onto it
		for pi, ptree := range s.trees {
			pt, _ := ptree.(T)
			ad, _ := pt["a_disclosed"].(T)
			for dk := range ad {
				for _, mapName := range []string{"rangeproofs", "a_responses"} {
					src, _ := pt[mapName].(T)
					for sk := range src {
						if mapName == "a_responses" && sk == "0" {
							continue
						}
						t2 := cloneTree(root).(T)
						p2 := t2["l"].([]any)[pi].(T)
						delete(p2["a_disclosed"].(T), dk)
						mm := p2[mapName].(T)
						mm[dk] = mm[sk]
						delete(mm, sk)
						emit(listOp(s.keys, t2["l"].([]any), s.ctx, s.nonce, false, nil, "mut-gap-rekey-"+mapName, "reject|decode-error"))
					}
				}
			}
		}
		// the entry point that takes the challenge as given, on freshly decoded members - whole, and
		// with parts of an optional sub-proof missing: a verdict, never a crash
		for pi, ptree := range s.trees {
			pt, _ := ptree.(T)
			if pt["A"] == nil {
				continue
			}
			variants := []T{cloneTree(pt).(T)}
			if nr, ok := pt["nonrev_proof"].(T); ok {
				for _, f := range []func(n T){
					func(n T) { delete(n, "responses") },
					func(n T) { n["responses"] = nil },
					func(n T) { n["responses"] = T{} },
					func(n T) {
						if r, ok := n["responses"].(T); ok {
							delete(r, "alpha")
						}
					},
					func(n T) {
						for k := range n {
							delete(n, k)
						}
					},
				} {
					v := cloneTree(pt).(T)
					f(v["nonrev_proof"].(T))
					variants = append(variants, v)
				}
				_ = nr
			}
			if rps, ok := pt["rangeproofs"].(T); ok && len(rps) > 0 {
				v := cloneTree(pt).(T)
				for k := range v["rangeproofs"].(T) {
					v["rangeproofs"].(T)[k] = []any{T{}}
				}
				variants = append(variants, v)
			}
			for _, v := range variants {
				emit(Op{"op": "verifyD-with-challenge", "class": "entry-with-challenge", "label": never, "nomodel": true, "fkey": "C08/entry-with-challenge",
					"key": s.keys[pi].id, "proof": v})
			}
		}
		// a range proof whose response arrays are BOTH cut or padded to one length that is not the
		// number of squares
		for pi, ptree := range s.trees {
			pt, _ := ptree.(T)
			rps, _ := pt["rangeproofs"].(T)
			for idx, lst := range rps {
				arr, _ := lst.([]any)
				for ri := range arr {
					rp, _ := arr[ri].(T)
					ds, _ := rp["ds"].([]any)
					vs, _ := rp["vs"].([]any)
					if len(ds) == 0 || len(ds) != len(vs) {
						continue
					}
					for _, n := range []int{0, 1, len(ds) - 1, len(ds) + 1, len(ds) + 3} {
						t2 := cloneTree(root).(T)
						r2 := t2["l"].([]any)[pi].(T)["rangeproofs"].(T)[idx].([]any)[ri].(T)
						d2, v2 := r2["ds"].([]any), r2["vs"].([]any)
						for len(d2) < n {
							d2, v2 = append(d2, cloneTree(d2[0])), append(v2, cloneTree(v2[0]))
						}
						r2["ds"], r2["vs"] = d2[:n], v2[:n]
						emit(listOp(s.keys, t2["l"].([]any), s.ctx, s.nonce, false, nil, "rangeproof-both-response-arrays-resized", "reject|decode-error").with("fkey", "C08/rangeproof-arrays-resized"))
					}
				}
			}
		}
		// an additional null member in every object of the message (whatever its name): at most a
		// refusal, never a crash
		for _, mp := range paths {
			node, ok := getAt(root, mp)
			pm, isMap := node.(map[string]any)
			if !ok || !isMap || !isMapNode(node) {
				continue
			}
			names := []string{"gamma", "zz"}
			if intKeyed(pm) && len(pm) > 0 {
				names = []string{"1", "3", "5"}
			}
			for _, name := range names {
				if _, taken := pm[name]; taken {
					continue
				}
				t2 := cloneTree(root)
				n2, _ := getAt(t2, mp)
				n2.(map[string]any)[name] = nil
				emit(listOp(s.keys, t2.(T)["l"].([]any), s.ctx, s.nonce, false, nil, "extra-null-member", never).with("fkey", "C08/extra-null-member"))
				break
			}
		}
		// every index-keyed map of every member, one entry moved to each boundary index of the
		// member's key: below 0, the last base, one past the last base, two past, far beyond
		for pi, ptree := range s.trees {
			pt, _ := ptree.(T)
			nr := len(s.keys[pi].pk.R)
			for _, mapName := range sortedStrKeys(pt) {
				mv := pt[mapName]
				pm, ok := mv.(map[string]any)
				if !ok || !isMapNode(mv) || !intKeyed(pm) || len(pm) == 0 {
					continue
				}
				src := sortedStrKeys(pm)[len(pm)-1]
				for _, nk := range []string{"-1", strconv.Itoa(nr - 1), strconv.Itoa(nr), strconv.Itoa(nr + 1), "2147483648", "9223372036854775807"} {
					if _, taken := pm[nk]; taken {
						continue
					}
					t2 := cloneTree(root).(T)
					mm := t2["l"].([]any)[pi].(T)[mapName].(map[string]any)
					mm[nk] = mm[src]
					delete(mm, src)
					label := "reject|decode-error"
					if h, ok := isLeafI(pm[src]); ok && h == "0" && mapName == "a_disclosed" {
						label = never
					}
					emit(listOp(s.keys, t2["l"].([]any), s.ctx, s.nonce, false, nil, "rekey-boundary-"+mapName, label).with("fkey", "C08/rekey-boundary"))
				}
			}
		}
		for m := 0; m < nmut; m++ {
			t2 := cloneTree(root)
			if m%3 == 2 {
				// double mutant: a first random deletion before the main mutation
				q := paths[g.intn(len(paths))]
				if _, ok := getAt(t2, q); ok && len(q) > 1 {
					deleteAt(t2, q)
				}
			}
			p := paths[g.intn(len(paths))]
			if _, ok := getAt(t2, p); !ok {
				continue
			}
			if len(p) > 1 {
				if _, ok := getAt(t2, p[:len(p)-1]); !ok {
					continue
				}
			}
			node, _ := getAt(t2, p)
			class := ""
			trivial := isEmptyNode(node)
			switch g.intn(8) {
			case 0: // delete node
				class = "delete"
				if h, ok := isLeafI(node); ok && h == "0" && len(p) >= 2 && p[len(p)-2] == "a_disclosed" {
					trivial = true // a disclosed value 0 contributes R^0 = 1: absent and present mean the same
				}
				deleteAt(t2, p)
			case 1: // null node
				class = "null"
				setAt(t2, p, nil)
			case 2: // duplicate an array element / re-insert a map entry under another key
				parent, _ := getAt(t2, p[:len(p)-1])
				if arr, ok := parent.([]any); ok {
					class = "dup-element"
					setAt(t2, p[:len(p)-1], append(append([]any{}, arr...), cloneTree(node)))
					trivial = false
				} else {
					class = "null"
					setAt(t2, p, nil)
				}
			case 3, 4: // re-key a map entry of an int-keyed map
				parent, _ := getAt(t2, p[:len(p)-1])
				pm, ok := parent.(map[string]any)
				if ok && isMapNode(parent) && intKeyed(pm) {
					class = "rekey"
					nr := len(ka.pk.R)
					nk := []string{"-1", "0", strconv.Itoa(nr - 1), strconv.Itoa(nr), "2147483648", "9223372036854775807", "1", "2"}[g.intn(8)]
					old := p[len(p)-1].(string)
					if nk == old {
						nk = "-1"
					}
					pm[nk] = pm[old]
					delete(pm, old)
					trivial = false
				} else {
					class = "delete"
					deleteAt(t2, p)
				}
			case 5: // swap two sub-trees
				class = "swap"
				q := paths[g.intn(len(paths))]
				a, okA := getAt(t2, p)
				b, okB := getAt(t2, q)
				if okA && okB && !isPrefix(p, q) && !isPrefix(q, p) {
					ca, cb := cloneTree(a), cloneTree(b)
					setAt(t2, p, cb)
					setAt(t2, q, ca)
					trivial = jsonEq(a, b)
				} else {
					setAt(t2, p, nil)
				}
			case 6: // truncate an array
				if arr, ok := node.([]any); ok && len(arr) > 0 {
					class = "truncate"
					setAt(t2, p, arr[:g.intn(len(arr))])
					trivial = false
				} else {
					class = "null"
					setAt(t2, p, nil)
				}
			case 7: // replace a big integer by an edge value
				if _, ok := isLeafI(node); ok {
					class = "edge-value"
					ev := []*big.Int{bi(0), bi(1), ka.pk.N, new(big.Int).Lsh(bi(1), 4000), new(big.Int).Sub(ka.pk.N, bi(1))}[g.intn(5)]
					setAt(t2, p, I(ev))
					trivial = false
				} else {
					class = "null"
					setAt(t2, p, nil)
				}
			}
			label := "reject|decode-error"
			if trivial || jsonEq(normalizeTree(t2, ""), normalizeTree(root, "")) {
				label = never // removing an empty / absent part need not change the verdict
			}
			trees, _ := t2.(map[string]any)["l"].([]any)
			if trees == nil {
				continue
			}
			keys := s.keys
			if len(trees) != len(keys) {
				// keep the list and key counts aligned so that the interesting paths are reached
				if len(trees) < len(keys) {
					keys = keys[:len(trees)]
				} else {
					for len(keys) < len(trees) {
						keys = append(keys, keys[0])
					}
				}
			}
			o := listOp(keys, trees, s.ctx, s.nonce, false, nil, "mut-"+class+fmt.Sprintf("-d%d", min(len(p), 4)), label)
			emit(o)
		}
	}
}

func isPrefix(a, b Path) bool {
	if len(a) > len(b) {
		return false
	}
	for i := range a {
		if a[i] != b[i] {
			return false
		}
	}
	return true
}

// normalizeTree removes everything whose presence or absence means the same to the verifier:
// nulls, empty containers, zero numbers, false, and disclosed values 0 (R^0 = 1).
func normalizeTree(t any, parentKey string) any {
	switch v := t.(type) {
	case map[string]any:
		if h, ok := isLeafI(v); ok {
			if parentKey == "a_disclosed" && h == "0" {
				return nil
			}
			return v
		}
		if _, ok := isLeafB(v); ok {
			return v
		}
		r := map[string]any{}
		for k, x := range v {
			pk := k
			if _, err := strconv.Atoi(k); err == nil {
				pk = parentKey // entries of an int-keyed map inherit the map's name
			}
			if n := normalizeTree(x, pk); !isEmptyNode(n) {
				r[k] = n
			}
		}
		return r
	case []any:
		r := make([]any, 0, len(v))
		for _, x := range v {
			r = append(r, normalizeTree(x, parentKey))
		}
		return r
	default:
		if isEmptyNode(v) {
			return nil
		}
		return v
	}
}

func sortedStrKeys(m map[string]any) []string {
	ks := make([]string, 0, len(m))
	for k := range m {
		ks = append(ks, k)
	}
	sort.Strings(ks)
	return ks
}
