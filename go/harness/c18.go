package main

// C18: serialisation round trips preserve meaning; key files stay private.
//
// Ops (one canonical result line each, compared with the Lean model GabiModel.Serial):
//   int-text, int-json, int-xml, int-bin   big.Int codecs (big/int.go)
//   key-parse                              New{Public,Private}KeyFrom{XML,Bytes,File} on abstract key documents
//   key-roundtrip                          WriteTo then New*FromXML, every field compared
//   filemode                               PrivateKey.WriteToFile over prior state x umask x overwrite flag
//   msg-roundtrip                          (c18_msg.go) protocol messages through JSON / CBOR, verdict before = after

import (
	"bytes"
	"encoding/json"
	"encoding/xml"
	"fmt"
	gobig "math/big"
	"os"
	"os/exec"
	"path/filepath"
	"strconv"
	"strings"
	"sync"
	"syscall"
	"time"

	"github.com/fxamacker/cbor"
	"github.com/privacybydesign/gabi/big"
	"github.com/privacybydesign/gabi/gabikeys"
	gsigned "github.com/privacybydesign/gabi/signed"

	"encoding/base64"
)

func init() {
	// the file-mode experiment runs in a child process so that it can also be done without
	// root privileges (permission checks are bypassed for root)
	if len(os.Args) > 1 && os.Args[1] == "c18-filemode-child" {
		fmt.Println(c18FilemodeChild(os.Args[2:]))
		os.Exit(0)
	}
	generators["C18"] = genC18
	executors["int-text"] = execIntText
	executors["int-concurrent"] = execIntConcurrent
	executors["int-json"] = execIntJSON
	executors["int-xml"] = execIntXML
	executors["int-bin"] = execIntBin
	executors["key-parse"] = execKeyParse
	executors["key-roundtrip"] = execKeyRoundtrip
	executors["filemode"] = execFilemode
}

// ---------------------------------------------------------------- big.Int codecs

func execIntText(o Op) string {
	x := unhx(o["x"])
	t, err := x.MarshalText()
	if err != nil {
		return "err"
	}
	// the text belongs to the caller: producing the text of other numbers afterwards does not
	// change it
	first := string(t)
	for _, y := range []*big.Int{new(big.Int).Add(x, bi(1)), new(big.Int).Lsh(bi(7), 300), bi(0)} {
		if _, err := y.MarshalText(); err != nil {
			return "err"
		}
	}
	if string(t) != first {
		return "text-changed-afterwards"
	}
	return "ok " + first
}

// int-concurrent: many goroutines serialise and read back different numbers (as concurrent sessions
// do with their messages): every number comes back as itself
func execIntConcurrent(o Op) string {
	xs := unhxs(o["xs"])
	rounds := o.int("rounds")
	var mu sync.Mutex
	bad := 0
	var wg sync.WaitGroup
	for gi := 0; gi < o.int("goroutines"); gi++ {
		wg.Add(1)
		go func(gi int) {
			defer wg.Done()
			for r := 0; r < rounds; r++ {
				x := xs[(gi*13+r)%len(xs)]
				type msg struct {
					A *big.Int `json:"a"`
					B *big.Int `json:"b"`
				}
				bts, err := json.Marshal(msg{x, new(big.Int).Add(x, bi(int64(gi)))})
				var back msg
				if err == nil {
					err = json.Unmarshal(bts, &back)
				}
				if err != nil || back.A == nil || back.A.Cmp(x) != 0 || back.B == nil || back.B.Cmp(new(big.Int).Add(x, bi(int64(gi)))) != 0 {
					mu.Lock()
					bad++
					mu.Unlock()
				}
			}
		}(gi)
	}
	wg.Wait()
	if bad > 0 {
		return fmt.Sprintf("corrupted %d", bad)
	}
	return "ok"
}

func sameWord(a, b *big.Int) string {
	if a != nil && b != nil && a.Cmp(b) == 0 {
		return "same"
	}
	return "diff"
}

func execIntJSON(o Op) string {
	switch o.str("mode") {
	case "rt":
		x := unhx(o["x"])
		bts, err := json.Marshal(x)
		if err != nil {
			return "err"
		}
		y := new(big.Int)
		if err := json.Unmarshal(bts, y); err != nil {
			return "err"
		}
		return sameWord(x, y) + " " + string(bts) + " " + showInt(y)
	case "parse":
		in := []byte(o.str("input"))
		y := new(big.Int)
		var err error
		if o.str("via") == "direct" {
			err = y.UnmarshalJSON(in)
		} else {
			err = json.Unmarshal(in, y)
		}
		if err != nil {
			return "err"
		}
		return "ok " + showInt(y)
	}
	return "bad-op mode"
}

type xmlIntDoc struct {
	XMLName xml.Name `xml:"Int"`
	V       *big.Int `xml:"V"`
}

func execIntXML(o Op) string {
	switch o.str("mode") {
	case "rt":
		x := unhx(o["x"])
		bts, err := xml.Marshal(&xmlIntDoc{V: x})
		if err != nil {
			return "err"
		}
		var d xmlIntDoc
		if err := xml.Unmarshal(bts, &d); err != nil {
			return "err"
		}
		s := string(bts)
		s = strings.TrimSuffix(strings.TrimPrefix(s, "<Int><V>"), "</V></Int>")
		return sameWord(x, d.V) + " " + s + " " + showInt(d.V)
	case "parse":
		var b bytes.Buffer
		b.WriteString("<Int><V>")
		xml.EscapeText(&b, []byte(o.str("input")))
		b.WriteString("</V></Int>")
		var d xmlIntDoc
		if err := xml.Unmarshal(b.Bytes(), &d); err != nil {
			return "err"
		}
		return "ok " + showInt(d.V)
	}
	return "bad-op mode"
}

func execIntBin(o Op) string {
	switch o.str("mode") {
	case "rt":
		x := unhx(o["x"])
		bts, err := x.MarshalBinary()
		if err != nil {
			return "err"
		}
		y := new(big.Int)
		if err := y.UnmarshalBinary(bts); err != nil {
			return "err"
		}
		cb, err := cbor.Marshal(x, cbor.EncOptions{})
		if err != nil {
			return "err"
		}
		z := new(big.Int)
		if err := cbor.Unmarshal(cb, z); err != nil {
			return "err"
		}
		w := "same"
		if sameWord(x, y) != "same" || sameWord(x, z) != "same" {
			w = "diff"
		}
		return w + " " + hb(bts) + " " + hb(cb) + " " + showInt(y) + " " + showInt(z)
	case "parse":
		y := new(big.Int)
		if err := y.UnmarshalBinary(unhb(o["bytes"])); err != nil {
			return "err"
		}
		return "ok " + showInt(y)
	}
	return "bad-op mode"
}

// ---------------------------------------------------------------- abstract key documents

const idemixNs = "http://www.zurich.ibm.com/security/idemix"

// docItem is one child of the key element: an element with text, the base list, or Features.
type docItem struct {
	K       string      `json:"k"` // "elem" | "bases" | "features"
	Name    string      `json:"name,omitempty"`
	Text    string      `json:"text"`
	Num     *string     `json:"num"` // bases: num attribute (nil = absent)
	Entries [][2]string `json:"entries"`
	Len     *string     `json:"len"` // features: Epoch length attribute (nil = no Epoch element)
}

type keyDoc struct {
	Ns    string    `json:"ns"`
	Root  string    `json:"root"`
	Items []docItem `json:"items"`
}

var inElements = map[string]bool{"n": true, "Z": true, "S": true, "G": true, "H": true, "p": true, "q": true, "pPrime": true, "qPrime": true}

func xmlEsc(s string) string {
	var b bytes.Buffer
	xml.EscapeText(&b, []byte(s))
	return b.String()
}

// renderDoc writes the abstract document as XML text in the layout of the key files.
func renderDoc(d keyDoc) string {
	var b strings.Builder
	b.WriteString(gabikeys.XMLHeader)
	if d.Ns != "" {
		fmt.Fprintf(&b, "<%s xmlns=\"%s\">\n", d.Root, xmlEsc(d.Ns))
	} else {
		fmt.Fprintf(&b, "<%s>\n", d.Root)
	}
	in := false
	for _, it := range d.Items {
		want := it.K == "bases" || (it.K == "elem" && inElements[it.Name])
		if want && !in {
			b.WriteString("   <Elements>\n")
			in = true
		}
		if !want && in {
			b.WriteString("   </Elements>\n")
			in = false
		}
		switch it.K {
		case "elem":
			fmt.Fprintf(&b, "      <%s>%s</%s>\n", it.Name, xmlEsc(it.Text), it.Name)
		case "bases":
			if it.Num != nil {
				fmt.Fprintf(&b, "      <Bases num=\"%s\">\n", xmlEsc(*it.Num))
			} else {
				b.WriteString("      <Bases>\n")
			}
			for _, e := range it.Entries {
				fmt.Fprintf(&b, "         <%s>%s</%s>\n", e[0], xmlEsc(e[1]), e[0])
			}
			b.WriteString("      </Bases>\n")
		case "features":
			if it.Len != nil {
				fmt.Fprintf(&b, "   <Features>\n      <Epoch length=\"%s\"></Epoch>\n   </Features>\n", xmlEsc(*it.Len))
			} else {
				b.WriteString("   <Features></Features>\n")
			}
		}
	}
	if in {
		b.WriteString("   </Elements>\n")
	}
	fmt.Fprintf(&b, "</%s>", d.Root)
	return b.String()
}

// readText consumes tokens up to the end of the current element and returns its character data.
func readText(dec *xml.Decoder) string {
	var sb strings.Builder
	depth := 0
	for {
		t, err := dec.Token()
		if err != nil {
			panic(err)
		}
		switch tt := t.(type) {
		case xml.StartElement:
			depth++
		case xml.EndElement:
			if depth == 0 {
				return sb.String()
			}
			depth--
		case xml.CharData:
			if depth == 0 {
				sb.Write(tt)
			}
		}
	}
}

func attrOf(se xml.StartElement, name string) *string {
	for _, a := range se.Attr {
		if a.Name.Local == name {
			v := a.Value
			return &v
		}
	}
	return nil
}

// docFromXML reads key XML with the generic tokenizer (independent of the gabikeys structs).
func docFromXML(s string) keyDoc {
	dec := xml.NewDecoder(strings.NewReader(s))
	var d keyDoc
	// root
	for {
		t, err := dec.Token()
		if err != nil {
			panic(err)
		}
		if se, ok := t.(xml.StartElement); ok {
			d.Root, d.Ns = se.Name.Local, se.Name.Space
			break
		}
	}
	var children func(inEl bool)
	children = func(inEl bool) {
		for {
			t, err := dec.Token()
			if err != nil {
				panic(err)
			}
			switch tt := t.(type) {
			case xml.EndElement:
				return
			case xml.StartElement:
				name := tt.Name.Local
				switch {
				case name == "Elements" && !inEl:
					children(true)
				case name == "Bases":
					it := docItem{K: "bases", Num: attrOf(tt, "num"), Entries: [][2]string{}}
				bl:
					for {
						t2, err := dec.Token()
						if err != nil {
							panic(err)
						}
						switch t3 := t2.(type) {
						case xml.EndElement:
							break bl
						case xml.StartElement:
							it.Entries = append(it.Entries, [2]string{t3.Name.Local, readText(dec)})
						}
					}
					d.Items = append(d.Items, it)
				case name == "Features":
					it := docItem{K: "features"}
				fl:
					for {
						t2, err := dec.Token()
						if err != nil {
							panic(err)
						}
						switch t3 := t2.(type) {
						case xml.EndElement:
							break fl
						case xml.StartElement:
							if t3.Name.Local == "Epoch" {
								it.Len = attrOf(t3, "length")
							}
							readText(dec)
						}
					}
					d.Items = append(d.Items, it)
				default:
					d.Items = append(d.Items, docItem{K: "elem", Name: name, Text: readText(dec)})
				}
			}
		}
	}
	children(false)
	return d
}

func canonDoc(d keyDoc) string {
	var parts []string
	for _, it := range d.Items {
		switch it.K {
		case "elem":
			parts = append(parts, "elem:"+it.Name+"="+it.Text)
		case "bases":
			num := "nil"
			if it.Num != nil {
				num = *it.Num
			}
			var es []string
			for _, e := range it.Entries {
				es = append(es, e[0]+"="+e[1])
			}
			parts = append(parts, "bases:"+num+"("+strings.Join(es, ",")+")")
		case "features":
			l := "nil"
			if it.Len != nil {
				l = *it.Len
			}
			parts = append(parts, "features:"+l)
		}
	}
	return "root=" + d.Root + " ns=" + d.Ns + " items=[" + strings.Join(parts, ";") + "]"
}

func (d keyDoc) clone() keyDoc {
	c := keyDoc{Ns: d.Ns, Root: d.Root, Items: make([]docItem, len(d.Items))}
	for i, it := range d.Items {
		c.Items[i] = it
		if it.Num != nil {
			v := *it.Num
			c.Items[i].Num = &v
		}
		if it.Len != nil {
			v := *it.Len
			c.Items[i].Len = &v
		}
		if it.Entries != nil {
			c.Items[i].Entries = append([][2]string{}, it.Entries...)
		}
	}
	return c
}

func decodeInto(v any, dst any) {
	b, err := json.Marshal(v)
	if err != nil {
		panic(err)
	}
	if err := json.Unmarshal(b, dst); err != nil {
		panic(err)
	}
}

func showInts(xs []*big.Int) string {
	s := make([]string, len(xs))
	for i, x := range xs {
		s[i] = showInt(x)
	}
	return "[" + strings.Join(s, ",") + "]"
}

func showPub(pk *gabikeys.PublicKey) string {
	ln := "nil"
	if pk.Params != nil {
		ln = strconv.Itoa(int(pk.Params.Ln))
	}
	return fmt.Sprintf("c=%d e=%d n=%s Z=%s S=%s G=%s H=%s R=%s epoch=%d ecdsa=%s ln=%s rev=%v",
		pk.Counter, pk.ExpiryDate, showInt(pk.N), showInt(pk.Z), showInt(pk.S), showInt(pk.G), showInt(pk.H),
		showInts(pk.R), int(pk.EpochLength), pk.ECDSAString, ln, pk.RevocationSupported() && pk.ECDSA != nil)
}

func showPriv(sk *gabikeys.PrivateKey) string {
	return fmt.Sprintf("c=%d e=%d p=%s q=%s pp=%s qp=%s n=%s order=%s ecdsa=%s rev=%v",
		sk.Counter, sk.ExpiryDate, showInt(sk.P), showInt(sk.Q), showInt(sk.PPrime), showInt(sk.QPrime),
		showInt(sk.N), showInt(sk.Order), sk.ECDSAString, sk.RevocationSupported() && sk.ECDSA != nil)
}

func tempFileWith(content string) (string, func()) {
	dir, err := os.MkdirTemp("", "c18key")
	if err != nil {
		panic(err)
	}
	fn := filepath.Join(dir, "key.xml")
	if err := os.WriteFile(fn, []byte(content), 0600); err != nil {
		panic(err)
	}
	return fn, func() { os.RemoveAll(dir) }
}

func execKeyParse(o Op) string {
	var doc keyDoc
	decodeInto(o["doc"], &doc)
	text := renderDoc(doc)
	switch o.str("kind") {
	case "pub":
		var pk *gabikeys.PublicKey
		var err error
		switch o.str("via") {
		case "file":
			fn, done := tempFileWith(text)
			defer done()
			pk, err = gabikeys.NewPublicKeyFromFile(fn)
		case "bytes":
			pk, err = gabikeys.NewPublicKeyFromBytes([]byte(text))
		default:
			pk, err = gabikeys.NewPublicKeyFromXML(text)
		}
		if err != nil {
			return "err"
		}
		return "ok " + showPub(pk)
	case "priv":
		var sk *gabikeys.PrivateKey
		var err error
		if o.str("via") == "file" {
			fn, done := tempFileWith(text)
			defer done()
			sk, err = gabikeys.NewPrivateKeyFromFile(fn, o.boolean("demo"))
		} else {
			sk, err = gabikeys.NewPrivateKeyFromXML(text, o.boolean("demo"))
		}
		if err != nil {
			return "err"
		}
		return "ok " + showPriv(sk)
	}
	return "bad-op kind"
}

func unhxOpt(v any) *big.Int {
	if v == nil {
		return nil
	}
	return unhx(v)
}

func intEq(a, b *big.Int) bool {
	if a == nil || b == nil {
		return a == nil && b == nil
	}
	return a.Cmp(b) == 0
}

// key-roundtrip: build the key from the fields of the line, WriteTo, read back, compare every field.
func execKeyRoundtrip(o Op) string {
	counter := uint(unhx(o["counter"]).Uint64())
	expiry := unhx(o["expiry"]).Int64()
	ecdsaStr := o.str("ecdsa")
	var diffs []string
	chk := func(name string, ok bool) {
		if !ok {
			diffs = append(diffs, name)
		}
	}
	switch o.str("kind") {
	case "pub":
		pk := &gabikeys.PublicKey{Counter: counter, ExpiryDate: expiry, N: unhx(o["n"]), Z: unhx(o["Z"]), S: unhx(o["S"]),
			G: unhxOpt(o["G"]), H: unhxOpt(o["H"]), R: unhxs(o["R"]), EpochLength: gabikeys.EpochLength(unhx(o["epoch"]).Int64()),
			ECDSAString: ecdsaStr}
		var buf bytes.Buffer
		n, err := pk.WriteTo(&buf)
		if err != nil {
			return "err"
		}
		chk("written", n == int64(buf.Len()))
		var pk2 *gabikeys.PublicKey
		if o.str("via") == "file" {
			dir, err := os.MkdirTemp("", "c18rt")
			if err != nil {
				panic(err)
			}
			defer os.RemoveAll(dir)
			fn := filepath.Join(dir, "pk.xml")
			if _, err := pk.WriteToFile(fn, false); err != nil {
				return "err"
			}
			pk2, err = gabikeys.NewPublicKeyFromFile(fn)
			if err != nil {
				return "err"
			}
		} else {
			pk2, err = gabikeys.NewPublicKeyFromXML(buf.String())
			if err != nil {
				return "err"
			}
		}
		chk("Counter", pk2.Counter == pk.Counter)
		chk("ExpiryDate", pk2.ExpiryDate == pk.ExpiryDate)
		chk("N", intEq(pk2.N, pk.N))
		chk("Z", intEq(pk2.Z, pk.Z))
		chk("S", intEq(pk2.S, pk.S))
		chk("G", intEq(pk2.G, pk.G))
		chk("H", intEq(pk2.H, pk.H))
		chk("Rlen", len(pk2.R) == len(pk.R))
		for i := range pk.R {
			if i < len(pk2.R) {
				chk("R"+strconv.Itoa(i), intEq(pk2.R[i], pk.R[i]))
			}
		}
		chk("EpochLength", pk2.EpochLength == pk.EpochLength)
		chk("ECDSAString", pk2.ECDSAString == pk.ECDSAString)
		chk("Params", pk2.Params == gabikeys.DefaultSystemParameters[pk.N.BitLen()] && pk2.Params != nil)
		if pk.RevocationSupported() {
			want, err := gsigned.UnmarshalPublicKey(must(base64.StdEncoding.DecodeString(ecdsaStr)))
			chk("ECDSA", err == nil && pk2.ECDSA != nil && pk2.ECDSA.Equal(want))
		} else {
			chk("ECDSA", pk2.ECDSA == nil)
		}
		w := "same"
		if len(diffs) > 0 {
			w = "diff:" + strings.Join(diffs, ",")
		}
		return w + " " + canonDoc(docFromXML(buf.String()))
	case "priv":
		sk := &gabikeys.PrivateKey{Counter: counter, ExpiryDate: expiry, P: unhx(o["p"]), Q: unhx(o["q"]),
			PPrime: unhx(o["pPrime"]), QPrime: unhx(o["qPrime"]), ECDSAString: ecdsaStr}
		var buf bytes.Buffer
		if _, err := sk.WriteTo(&buf); err != nil {
			return "err"
		}
		var sk2 *gabikeys.PrivateKey
		var err error
		if o.str("via") == "file" {
			dir, err := os.MkdirTemp("", "c18rt")
			if err != nil {
				panic(err)
			}
			defer os.RemoveAll(dir)
			fn := filepath.Join(dir, "sk.xml")
			if _, err := sk.WriteToFile(fn, false); err != nil {
				return "err"
			}
			sk2, err = gabikeys.NewPrivateKeyFromFile(fn, o.boolean("demo"))
			if err != nil {
				return "err"
			}
		} else {
			sk2, err = gabikeys.NewPrivateKeyFromXML(buf.String(), o.boolean("demo"))
			if err != nil {
				return "err"
			}
		}
		chk("Counter", sk2.Counter == sk.Counter)
		chk("ExpiryDate", sk2.ExpiryDate == sk.ExpiryDate)
		chk("P", intEq(sk2.P, sk.P))
		chk("Q", intEq(sk2.Q, sk.Q))
		chk("PPrime", intEq(sk2.PPrime, sk.PPrime))
		chk("QPrime", intEq(sk2.QPrime, sk.QPrime))
		chk("ECDSAString", sk2.ECDSAString == sk.ECDSAString)
		chk("N", intEq(sk2.N, new(big.Int).Mul(sk.P, sk.Q)))
		chk("Order", intEq(sk2.Order, new(big.Int).Mul(sk.PPrime, sk.QPrime)))
		if ecdsaStr != "" {
			want, err := gsigned.UnmarshalPrivateKey(must(base64.StdEncoding.DecodeString(ecdsaStr)))
			chk("ECDSA", err == nil && sk2.ECDSA != nil && sk2.ECDSA.Equal(want))
		} else {
			chk("ECDSA", sk2.ECDSA == nil)
		}
		w := "same"
		if len(diffs) > 0 {
			w = "diff:" + strings.Join(diffs, ",")
		}
		return w + " " + canonDoc(docFromXML(buf.String()))
	}
	return "bad-op kind"
}

// ---------------------------------------------------------------- file modes

// c18FilemodeChild: args = prior, umask (octal), force (0|1). Sets up the prior state in a fresh
// directory, calls the real WriteToFile and reports the resulting mode.
func c18FilemodeChild(args []string) string {
	if len(args) != 3 {
		return "child-error args"
	}
	prior := args[0]
	um, err := strconv.ParseUint(args[1], 8, 32)
	if err != nil {
		return "child-error umask"
	}
	force := args[2] == "1"
	syscall.Umask(0)
	dir, err := os.MkdirTemp("", "c18fm")
	if err != nil {
		return "child-error tempdir"
	}
	defer os.RemoveAll(dir)
	path := filepath.Join(dir, "sk.xml")
	target := filepath.Join(dir, "target.xml")
	mk := func(p string, mode string) error {
		m, err := strconv.ParseUint(mode, 8, 32)
		if err != nil {
			return err
		}
		if err := os.WriteFile(p, []byte("old content, longer than nothing\n"), 0600); err != nil {
			return err
		}
		return os.Chmod(p, os.FileMode(m))
	}
	kind, mode, _ := strings.Cut(prior, ":")
	switch kind {
	case "absent":
	case "file":
		err = mk(path, mode)
	case "dir":
		err = os.Mkdir(path, 0755)
	case "link-absent":
		err = os.Symlink(target, path)
	case "link-file":
		if err = mk(target, mode); err == nil {
			err = os.Symlink(target, path)
		}
	case "link-dir":
		if err = os.Mkdir(target, 0755); err == nil {
			err = os.Symlink(target, path)
		}
	default:
		return "child-error prior"
	}
	if err != nil {
		return "child-error setup"
	}
	sk, err := gabikeys.NewPrivateKeyFromXML(xmlPrivKey1, true)
	if err != nil {
		return "child-error key"
	}
	syscall.Umask(int(um))
	_, werr := sk.WriteToFile(path, force)
	syscall.Umask(0)
	if werr != nil {
		return "err"
	}
	st, err := os.Stat(path)
	if err != nil {
		return "child-error stat"
	}
	perm := st.Mode().Perm()
	word := "private"
	if perm&0077 != 0 {
		word = "exposed"
	}
	content := "unreadable"
	if sk2, err := gabikeys.NewPrivateKeyFromFile(path, true); err == nil {
		content = "bad"
		if intEq(sk2.P, sk.P) && intEq(sk2.Q, sk.Q) {
			content = "ok"
		}
	}
	return fmt.Sprintf("%s %04o content=%s", word, perm, content)
}

func runFilemodeChild(prior string, umask int, force bool, root bool) string {
	f := "0"
	if force {
		f = "1"
	}
	cmd := exec.Command(os.Args[0], "c18-filemode-child", prior, strconv.FormatInt(int64(umask), 8), f)
	cmd.Env = append(os.Environ(), "TMPDIR="+os.TempDir())
	if !root {
		if os.Geteuid() != 0 {
			// already unprivileged
		} else {
			cmd.SysProcAttr = &syscall.SysProcAttr{Credential: &syscall.Credential{Uid: 65534, Gid: 65534}}
		}
	} else if os.Geteuid() != 0 {
		return "child-error not-root"
	}
	out, err := cmd.Output()
	if err != nil {
		return "child-error run"
	}
	return strings.TrimSpace(string(out))
}

func execFilemode(o Op) string {
	return runFilemodeChild(o.str("prior"), o.int("umask"), o.boolean("force"), o.boolean("root"))
}

// ---------------------------------------------------------------- generator

func hxu(u uint64) any      { return new(gobig.Int).SetUint64(u).Text(16) }
func strp(s string) *string { return &s }

func boundaryInts(g *Rng, thorough bool) []*big.Int {
	var xs []*big.Int
	one := bi(1)
	xs = append(xs, bi(0), bi(1), bi(2), bi(127), bi(128), bi(255), bi(256))
	maxBytes := 40
	if thorough {
		maxBytes = 140
	}
	for j := 1; j <= maxBytes; j++ {
		p := new(big.Int).Lsh(one, uint(8*j))
		xs = append(xs, new(big.Int).Sub(p, one), p, new(big.Int).Rsh(p, 1), new(big.Int).Sub(new(big.Int).Rsh(p, 1), one))
	}
	for _, j := range []int{128, 129, 255, 256, 257, 512, 513, 514} {
		p := new(big.Int).Lsh(one, uint(8*j))
		xs = append(xs, new(big.Int).Sub(p, one), p)
	}
	nrand := 60
	if thorough {
		nrand = 1500
	}
	for i := 0; i < nrand; i++ {
		xs = append(xs, g.bits(1+g.intn(8*(3+g.intn(300)))))
	}
	return xs
}

func genInts(g *Rng, thorough bool, emit func(Op)) {
	{
		var xs []*big.Int
		for i := 0; i < 64; i++ {
			xs = append(xs, g.bits(8+g.intn(2100)))
		}
		rounds := 2000
		if thorough {
			rounds = 40000
		}
		emit(Op{"op": "int-concurrent", "class": "int-concurrent", "label": "ok", "nomodel": true, "xs": hxs(xs), "rounds": rounds, "goroutines": 32})
	}
	for _, x := range boundaryInts(g, thorough) {
		for _, neg := range []bool{false, true} {
			v, cls, lt, lrt := x, "nonneg", "ok", "same"
			if neg {
				if x.Sign() == 0 {
					continue
				}
				v, cls, lt, lrt = new(big.Int).Neg(x), "negative", "err", "err"
			}
			emit(Op{"op": "int-text", "class": cls, "label": lt, "key": "int-text-" + cls, "x": hx(v)})
			emit(Op{"op": "int-json", "mode": "rt", "class": cls, "label": lrt, "key": "int-json-" + cls, "x": hx(v)})
			emit(Op{"op": "int-xml", "mode": "rt", "class": cls, "label": lrt, "key": "int-xml-" + cls, "x": hx(v)})
			if neg {
				// the binary form carries the magnitude only; the property makes no claim here
				emit(Op{"op": "int-bin", "mode": "rt", "class": cls, "x": hx(v)})
			} else {
				emit(Op{"op": "int-bin", "mode": "rt", "class": cls, "label": "same", "key": "int-bin-nonneg", "x": hx(v)})
			}
			// decimal (unquoted) JSON and XML text forms of the same value
			dec := v.String()
			emit(Op{"op": "int-json", "mode": "parse", "via": "json", "class": "decimal-" + cls, "label": lt, "key": "int-json-decimal-" + cls, "input": dec})
			emit(Op{"op": "int-json", "mode": "parse", "via": "direct", "class": "decimal-" + cls, "label": lt, "key": "int-json-decimal-" + cls, "input": dec})
			emit(Op{"op": "int-xml", "mode": "parse", "class": "decimal-" + cls, "label": lt, "key": "int-xml-decimal-" + cls, "input": dec})
		}
	}
	// byte strings with leading zero bytes
	for _, n := range []int{0, 1, 2, 3, 4, 5, 31, 32, 33, 64} {
		for _, z := range []int{0, 1, 2, 3, 7} {
			b := append(make([]byte, z), g.bytes(n)...)
			if n > 0 && b[z] == 0 {
				b[z] = 1
			}
			emit(Op{"op": "int-bin", "mode": "parse", "class": "leading-zeros", "label": "ok", "bytes": hb(b)})
			q := "\"" + base64.StdEncoding.EncodeToString(b) + "\""
			emit(Op{"op": "int-json", "mode": "parse", "via": "json", "class": "quoted-leading-zeros", "label": "ok", "input": q})
			emit(Op{"op": "int-json", "mode": "parse", "via": "direct", "class": "quoted-leading-zeros", "label": "ok", "input": q})
		}
	}
	// malformed and unusual inputs: no label (the model decides), except negative numbers
	quoted := []string{`""`, `"AQ"`, `"AQ="`, `"AQ=="`, `"AQ==="`, `"AQ==AQ=="`, `"A==="`, `"=AQ="`, `"AR=="`, `"AQI="`, `"AQJ="`, `"AQID"`, `"AQIDBA=="`,
		`"AQ-_"`, `"AQ!="`, `"AQ =="`, `"AQ==x"`, `"A"`, `"AQI"`, `"////"`, `"++++"`, `"AAAA"`, `"AAAAAQ=="`, `"AQ==`, `"AQ==x`, ` "AQ=="`, `"AQ==" `,
		"\"AQID\nBAUG\"", "\"AQ\r\n==\"", "\"AQ=\n=\"", "\"AQ==\n\"", `"AQ=="`, `"AQ\n=="`}
	for _, in := range quoted {
		emit(Op{"op": "int-json", "mode": "parse", "via": "json", "class": "quoted-odd", "input": in})
		emit(Op{"op": "int-json", "mode": "parse", "via": "direct", "class": "quoted-odd", "input": in})
	}
	unq := []string{"0", "-0", "5", "007", "1.0", "1.5", "1e2", "1E2", "null", " 12 ", "\t12\n", "true", "false", "[1]", "{}", "+5", "0x10", "0b1", "1_000", "12a", "--5", "-", "",
		"123456789012345678901234567890123456789012345678901234567890", "nul", "nulll", "- 5", "5 5"}
	for _, in := range unq {
		if in == "" {
			continue // b[0] on empty input: never produced by encoding/json
		}
		emit(Op{"op": "int-json", "mode": "parse", "via": "json", "class": "unquoted-odd", "input": in})
		emit(Op{"op": "int-json", "mode": "parse", "via": "direct", "class": "unquoted-odd", "input": in})
	}
	for _, in := range []string{"-5", "-1", "-123456789012345678901234567890"} {
		emit(Op{"op": "int-json", "mode": "parse", "via": "json", "class": "unquoted-negative", "label": "err", "key": "int-json-decimal-negative", "input": in})
		emit(Op{"op": "int-xml", "mode": "parse", "class": "text-negative", "label": "err", "key": "int-xml-decimal-negative", "input": in})
	}
	for _, in := range []string{"", "0", "-0", "+0", "+5", " 5", "5 ", "1_0", "0x10", "12a", "1.5", "1e3", "--5", "-", "+", "00012", "-00012"} {
		emit(Op{"op": "int-xml", "mode": "parse", "class": "text-odd", "input": in})
	}
}

var (
	pubBig  = map[string]bool{"n": true, "Z": true, "S": true, "G": true, "H": true}
	privBig = map[string]bool{"p": true, "q": true, "pPrime": true, "qPrime": true}
	pubMand = map[string]bool{"n": true, "Z": true, "S": true}
)

// garblings that are certainly not base 10 integers
var nonDecimal = []string{"", "12a", "0x1F", "1_000", "1.5", "1e3", "--5", "-", "abc", "١٢"}

// other unusual texts: no label
var oddTexts = []string{" 12", "12 ", "+5", "-0", "00012", "\n12\n"}

type docCase struct {
	name  string
	kind  string
	doc   keyDoc
	ecdsa []string
}

func baseDocs() []docCase {
	var cs []docCase
	for _, c := range []struct{ name, kind, x string }{
		{"pub1024", "pub", xmlPubKey1}, {"pub2048rev", "pub", xmlPub2048}, {"priv1024", "priv", xmlPrivKey1}, {"priv2048rev", "priv", xmlPriv2048}} {
		d := docFromXML(c.x)
		var ec []string
		for _, it := range d.Items {
			if it.K == "elem" && it.Name == "ECDSA" {
				ec = append(ec, it.Text)
			}
		}
		cs = append(cs, docCase{c.name, c.kind, d, ec})
	}
	return cs
}

func isZeroText(s string) bool { return strings.Trim(s, "0") == "" }

func genKeyParse(g *Rng, thorough bool, emit func(Op)) {
	for _, bc := range baseDocs() {
		vias := []string{"xml"}
		if bc.kind == "pub" {
			vias = []string{"xml", "file", "bytes"}
		} else if thorough {
			vias = []string{"xml", "file"}
		}
		demos := []bool{false}
		if bc.kind == "priv" {
			demos = []bool{false, true}
		}
		bigNames, mand := pubBig, pubMand
		if bc.kind == "priv" {
			bigNames, mand = privBig, privBig
		}
		for _, via := range vias {
			for _, demo := range demos {
				sfx := ""
				if via == "file" {
					sfx = "-file"
				}
				out := func(class, label, key string, d keyDoc) {
					o := Op{"op": "key-parse", "class": class, "kind": bc.kind, "via": via, "demo": demo, "base": bc.name, "doc": d, "ecdsaOk": bc.ecdsa}
					if label != "" {
						o["label"] = label
						o["key"] = key + sfx
					}
					emit(o)
				}
				out("valid", "ok", "valid", bc.doc)
				for i, it := range bc.doc.Items {
					// deletion
					d := bc.doc.clone()
					d.Items = append(d.Items[:i:i], d.Items[i+1:]...)
					nm := it.Name
					if it.K != "elem" {
						nm = it.K
					}
					if it.K == "elem" && mand[it.Name] {
						out("delete-mandatory", "err", "missing-"+it.Name, d)
					} else {
						out("delete-optional:"+nm, "", "", d)
					}
					// duplication (second copy wins; same content)
					d = bc.doc.clone()
					d.Items = append(d.Items[:i+1:i+1], append([]docItem{bc.doc.clone().Items[i]}, d.Items[i+1:]...)...)
					out("duplicate:"+nm, "", "", d)
					if it.K == "elem" {
						isBig := bigNames[it.Name]
						isNum := isBig || it.Name == "Counter" || it.Name == "ExpiryDate"
						if isNum {
							// negation
							d = bc.doc.clone()
							d.Items[i].Text = "-" + it.Text
							switch {
							case isBig && !isZeroText(it.Text):
								out("negate", "err", "negative-"+it.Name, d)
							default:
								out("negate-other:"+it.Name, "", "", d)
							}
							for _, t := range nonDecimal {
								d = bc.doc.clone()
								d.Items[i].Text = t
								if t == "" && !isBig {
									out("garble-empty:"+it.Name, "", "", d) // empty machine integers read as 0
								} else {
									out("garble", "err", "nondecimal-"+it.Name, d)
								}
							}
							for _, t := range oddTexts {
								d = bc.doc.clone()
								d.Items[i].Text = t
								out("odd-text:"+it.Name, "", "", d)
							}
							// duplicate whose second copy is garbled / whose first copy is garbled
							d = bc.doc.clone()
							bad := bc.doc.clone().Items[i]
							bad.Text = "12a"
							d.Items = append(d.Items[:i+1:i+1], append([]docItem{bad}, d.Items[i+1:]...)...)
							out("duplicate-garbled:"+it.Name, "", "", d)
						} else if it.Name == "ECDSA" {
							for _, t := range []string{"!!!", "AAAA", "", it.Text[:len(it.Text)-4]} {
								d = bc.doc.clone()
								d.Items[i].Text = t
								out("ecdsa-garbled", "", "", d)
							}
						}
					}
					if it.K == "bases" {
						nb := len(it.Entries)
						for _, num := range []*string{nil, strp(""), strp("x"), strp("0"), strp(strconv.Itoa(nb + 1)), strp(strconv.Itoa(nb - 1)), strp("-1"), strp("-" + strconv.Itoa(nb)),
							strp(" " + strconv.Itoa(nb) + " "), strp("+" + strconv.Itoa(nb)), strp("99999999999999999999999")} {
							d = bc.doc.clone()
							d.Items[i].Num = num
							if num != nil && (*num == " "+strconv.Itoa(nb)+" " || *num == "+"+strconv.Itoa(nb)) {
								out("bases-num-odd", "", "", d)
							} else {
								out("bases-count", "err", "bases-count", d)
							}
						}
						js := []int{0, nb - 1, g.intn(nb)}
						if thorough {
							js = nil
							for j := 0; j < nb; j++ {
								js = append(js, j)
							}
						}
						for _, j := range js {
							d = bc.doc.clone()
							d.Items[i].Entries = append(d.Items[i].Entries[:j:j], d.Items[i].Entries[j+1:]...)
							out("bases-count", "err", "bases-count", d)
							d = bc.doc.clone()
							d.Items[i].Entries = append(d.Items[i].Entries[:j+1:j+1], d.Items[i].Entries[j:]...)
							out("bases-count", "err", "bases-count", d)
							d = bc.doc.clone()
							d.Items[i].Entries[j][1] = "-" + d.Items[i].Entries[j][1]
							out("bases-negative", "err", "bases-negative", d)
							for _, t := range nonDecimal {
								d = bc.doc.clone()
								d.Items[i].Entries[j][1] = t
								out("bases-garbled", "err", "bases-nondecimal", d)
							}
							for _, t := range oddTexts {
								d = bc.doc.clone()
								d.Items[i].Entries[j][1] = t
								out("bases-odd-text", "", "", d)
							}
							d = bc.doc.clone()
							d.Items[i].Entries[j][0] = "Foo"
							out("bases-renamed", "", "", d)
						}
						d = bc.doc.clone()
						d.Items[i].Entries = [][2]string{}
						d.Items[i].Num = strp("0")
						out("bases-empty", "ok", "bases-empty", d)
					}
					if it.K == "features" {
						for _, l := range []*string{nil, strp(""), strp("x"), strp("0"), strp("-5"), strp("1.5"), strp(" 7 "), strp("99999999999999999999999")} {
							d = bc.doc.clone()
							d.Items[i].Len = l
							out("features-length", "", "", d)
						}
					}
				}
				// root element / name space
				for _, rn := range [][2]string{{"IssuerPublicKey", idemixNs}, {"IssuerPrivateKey", idemixNs}, {"Key", idemixNs}, {bc.doc.Root, ""}, {bc.doc.Root, "http://example.org/other"}} {
					if rn[0] == bc.doc.Root && rn[1] == bc.doc.Ns {
						continue
					}
					d := bc.doc.clone()
					d.Root, d.Ns = rn[0], rn[1]
					out("wrong-root", "", "", d)
				}
				// unknown extra element
				d := bc.doc.clone()
				d.Items = append(d.Items, docItem{K: "elem", Name: "Comment", Text: "hello"})
				out("extra-element", "ok", "extra-element", d)
				if bc.kind == "pub" {
					// modulus lengths without system parameters
					for _, bits := range []int{0, 1, 255, 257, 512, 1023, 1025, 2047, 2049, 3072, 4095, 4097} {
						d := bc.doc.clone()
						for i := range d.Items {
							if d.Items[i].Name == "n" {
								d.Items[i].Text = g.exactBits(bits).String()
							}
						}
						out("keylength", "err", "keylength", d)
					}
					for _, bits := range []int{1024, 2048, 4096} {
						d := bc.doc.clone()
						for i := range d.Items {
							if d.Items[i].Name == "n" {
								d.Items[i].Text = g.exactBits(bits).String()
							}
						}
						out("keylength-supported", "ok", "keylength-supported", d)
					}
				}
				if bc.kind == "priv" {
					get := func(name string) *big.Int {
						for _, it := range bc.doc.Items {
							if it.Name == name {
								v, _ := new(big.Int).SetString(it.Text, 10)
								return v
							}
						}
						return nil
					}
					set := func(d keyDoc, name string, v *big.Int) {
						for i := range d.Items {
							if d.Items[i].Name == name {
								d.Items[i].Text = v.String()
							}
						}
					}
					lab := func(l string) string {
						if demo {
							return "" // demo mode skips the checks: no claim
						}
						return l
					}
					for _, pq := range []string{"p", "q"} {
						p := get(pq)
						pp := get(pq + "Prime")
						// inconsistent pairs
						for _, delta := range []int64{2, -2, 4} {
							d := bc.doc.clone()
							set(d, pq, new(big.Int).Add(p, bi(delta)))
							out("inconsistent", lab("err"), "inconsistent-"+pq, d)
						}
						d := bc.doc.clone()
						set(d, pq+"Prime", new(big.Int).Add(pp, bi(1)))
						out("inconsistent", lab("err"), "inconsistent-"+pq, d)
						d = bc.doc.clone()
						set(d, pq, bi(0))
						out("inconsistent", lab("err"), "inconsistent-"+pq, d)
						// consistent, p prime, (p-1)/2 composite
						bits := p.BitLen()
						for {
							c := randPrime(g, bits)
							h := new(big.Int).Rsh(c, 1)
							if !h.ProbablyPrime(30) {
								d := bc.doc.clone()
								set(d, pq, c)
								set(d, pq+"Prime", h)
								out("not-safe-prime", lab("err"), "notsafe-"+pq, d)
								break
							}
						}
						// consistent, (p-1)/2 prime, p composite
						for {
							h := randPrime(g, bits-1)
							c := new(big.Int).Add(new(big.Int).Lsh(h, 1), bi(1))
							if !c.ProbablyPrime(30) {
								d := bc.doc.clone()
								set(d, pq, c)
								set(d, pq+"Prime", h)
								out("not-safe-prime", lab("err"), "notsafe-"+pq, d)
								break
							}
						}
						// tiny cases
						for _, c := range []int64{1, 2, 3, 5, 7, 9, 11} {
							d := bc.doc.clone()
							set(d, pq, bi(c))
							set(d, pq+"Prime", bi((c-1)/2))
							if c == 7 || c == 11 || c == 5 {
								out("tiny-safe-prime", "", "", d)
							} else {
								out("not-safe-prime", lab("err"), "notsafe-"+pq, d)
							}
						}
					}
				}
			}
		}
	}
}

// genKeyParsePairs: two independent mutations of distinct children of one document (thorough tier).
func genKeyParsePairs(g *Rng, emit func(Op)) {
	for _, bc := range baseDocs() {
		bigNames, mand := pubBig, pubMand
		if bc.kind == "priv" {
			bigNames, mand = privBig, privBig
		}
		for iter := 0; iter < 250; iter++ {
			n := len(bc.doc.Items)
			i, j := g.intn(n), g.intn(n)
			if i == j {
				continue
			}
			if i > j {
				i, j = j, i
			}
			d := bc.doc.clone()
			mustErr := false
			var names []string
			apply := func(k int) {
				it := d.Items[k]
				isBig := it.K == "elem" && bigNames[it.Name]
				switch g.intn(5) {
				case 0: // delete
					d.Items = append(d.Items[:k:k], d.Items[k+1:]...)
					if it.K == "elem" && mand[it.Name] {
						mustErr = true
					}
					names = append(names, "delete")
				case 1: // negate
					if isBig && !isZeroText(it.Text) {
						d.Items[k].Text = "-" + it.Text
						mustErr = true
						names = append(names, "negate")
					}
				case 2: // garble
					if isBig {
						d.Items[k].Text = nonDecimal[g.intn(len(nonDecimal))]
						mustErr = true
						names = append(names, "garble")
					} else if it.K == "bases" && len(it.Entries) > 0 {
						e := g.intn(len(it.Entries))
						d.Items[k].Entries[e][1] = nonDecimal[g.intn(len(nonDecimal))]
						mustErr = true
						names = append(names, "garble-base")
					}
				case 3: // duplicate
					d.Items = append(d.Items[:k+1:k+1], append([]docItem{bc.doc.clone().Items[k]}, d.Items[k+1:]...)...)
					names = append(names, "duplicate")
				case 4: // odd text
					if it.K == "elem" && it.Name != "ECDSA" {
						d.Items[k].Text = oddTexts[g.intn(len(oddTexts))]
						names = append(names, "odd")
					}
				}
			}
			apply(j)
			apply(i)
			via := "xml"
			if bc.kind == "pub" && g.coin() {
				via = "file"
			}
			o := Op{"op": "key-parse", "class": "pair:" + strings.Join(names, "+"), "kind": bc.kind, "via": via, "demo": g.coin(), "base": bc.name, "doc": d, "ecdsaOk": bc.ecdsa}
			if mustErr {
				o["label"], o["key"] = "err", "pair-malformed"
			}
			emit(o)
		}
	}
}

func genKeyRoundtrip(g *Rng, thorough bool, emit func(Op)) {
	ecKey := must(gsigned.GenerateKey())
	ecPub := base64.StdEncoding.EncodeToString(must(gsigned.MarshalPublicKey(&ecKey.PublicKey)))
	ecPriv := base64.StdEncoding.EncodeToString(must(gsigned.MarshalPrivateKey(ecKey)))
	counters := []uint64{0, 1, 7, 1 << 32, 1<<64 - 1}
	expiries := []int64{0, 1, -1, 1700000000, 1<<63 - 1, -1 << 63}
	epochs := []int64{0, 432000, 1, -1, 1<<63 - 1, -1 << 63}
	type mod struct {
		name string
		n    *big.Int
	}
	mods := []mod{{"k1024a", fixedKey("k1024a", false).pk.N}, {"k2048", fixedKey("k2048", false).pk.N}}
	if thorough {
		mods = append(mods, mod{"k1024b", fixedKey("k1024b", false).pk.N}, mod{"rand4096", g.exactBits(4096)})
	}
	for _, m := range mods {
		for nb := 0; nb <= 20; nb++ {
			revs := []string{"none", "full"}
			if nb%5 == 0 || thorough {
				revs = []string{"none", "full", "g-only", "no-ecdsa", "ecdsa-only"}
			}
			for _, rev := range revs {
				R := make([]*big.Int, nb)
				for i := range R {
					R[i] = g.below(m.n)
					if g.intn(10) == 0 {
						R[i] = bi(int64(g.intn(3)))
					}
				}
				var G, H *big.Int
				ec := ""
				switch rev {
				case "full":
					G, H, ec = g.below(m.n), g.below(m.n), ecPub
				case "g-only":
					G, ec = g.below(m.n), ecPub
				case "no-ecdsa":
					G, H = g.below(m.n), g.below(m.n)
				case "ecdsa-only":
					ec = ecPub
				}
				via := "xml"
				if g.intn(4) == 0 {
					via = "file"
				}
				z := g.below(m.n)
				if g.intn(8) == 0 {
					z = bi(0)
				}
				emit(Op{"op": "key-roundtrip", "class": "pub-" + rev, "label": "same", "key": "key-roundtrip-pub", "kind": "pub", "via": via,
					"counter": hxu(counters[g.intn(len(counters))]), "expiry": hxi(expiries[g.intn(len(expiries))]),
					"epoch": hxi(epochs[g.intn(len(epochs))]), "n": hx(m.n), "Z": hx(z), "S": hx(g.below(m.n)),
					"G": hx(G), "H": hx(H), "R": hxs(R), "ecdsa": ec, "ecdsaOk": []string{ecPub, ecPriv}, "nbases": nb})
			}
		}
	}
	for _, id := range []string{"k1024a", "k1024b", "k2048"} {
		sk := fixedKey(id, false).sk
		for _, demo := range []bool{false, true} {
			for _, ec := range []string{"", ecPriv} {
				for _, via := range []string{"xml", "file"} {
					emit(Op{"op": "key-roundtrip", "class": "priv", "label": "same", "key": "key-roundtrip-priv", "kind": "priv", "via": via, "demo": demo,
						"counter": hxu(counters[g.intn(len(counters))]), "expiry": hxi(expiries[g.intn(len(expiries))]),
						"p": hx(sk.P), "q": hx(sk.Q), "pPrime": hx(sk.PPrime), "qPrime": hx(sk.QPrime), "ecdsa": ec, "ecdsaOk": []string{ecPub, ecPriv}})
				}
			}
		}
	}
	// demo mode: arbitrary non-negative numbers survive as well
	for i := 0; i < 6; i++ {
		emit(Op{"op": "key-roundtrip", "class": "priv-demo-arbitrary", "label": "same", "key": "key-roundtrip-priv", "kind": "priv", "via": "xml", "demo": true,
			"counter": hxu(counters[g.intn(len(counters))]), "expiry": hxi(expiries[g.intn(len(expiries))]),
			"p": hx(g.bits(1 + g.intn(600))), "q": hx(g.bits(1 + g.intn(600))), "pPrime": hx(g.bits(1 + g.intn(600))), "qPrime": hx(bi(0)), "ecdsa": "", "ecdsaOk": []string{}})
	}
}

func genFilemode(g *Rng, thorough bool, emit func(Op)) {
	priors := []string{"absent", "file:0644", "file:0666", "file:0400", "file:0600", "file:0640", "file:0777", "file:0000", "file:0444", "file:0200",
		"dir", "link-absent", "link-file:0644", "link-file:0666", "link-file:0400", "link-file:0600", "link-dir"}
	umasks := []int{0, 0o022, 0o077, 0o027, 0o002, 0o277, 0o777, 0o177}
	if thorough {
		umasks = append(umasks, 0o007, 0o070, 0o700, 0o377, 0o222, 0o111, 0o555)
		priors = append(priors, "file:0604", "file:0660", "file:0606", "file:0222", "link-file:0777", "link-file:0000")
	}
	roots := []bool{}
	if os.Geteuid() == 0 {
		roots = append(roots, true)
		// can an unprivileged child run the harness binary?
		if r := runFilemodeChild("absent", 0o022, false, false); !strings.HasPrefix(r, "child-error") {
			roots = append(roots, false)
		} else {
			fmt.Fprintln(os.Stderr, "C18 filemode: unprivileged child unavailable:", r)
		}
	} else {
		roots = append(roots, false)
	}
	for _, root := range roots {
		for _, p := range priors {
			for _, um := range umasks {
				for _, force := range []bool{false, true} {
					emit(Op{"op": "filemode", "class": "table", "label": "private|err", "key": "private-key-mode", "prior": p, "umask": um, "force": force, "root": root})
				}
			}
		}
	}
}

func genC18(g *Rng, tier string, emit func(Op)) {
	thorough := tier == "thorough"
	t0 := time.Now()
	genInts(g, thorough, emit)
	genKeyParse(g, thorough, emit)
	if thorough {
		genKeyParsePairs(g, emit)
	}
	genKeyRoundtrip(g, thorough, emit)
	genFilemode(g, thorough, emit)
	genMsgs(g, thorough, emit)
	fmt.Fprintf(os.Stderr, "C18 gen: %.1fs\n", time.Since(t0).Seconds())
}
