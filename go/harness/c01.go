package main

import (
	"strconv"

	"github.com/privacybydesign/gabi"
	"github.com/privacybydesign/gabi/big"
)

// C01: disclosed attribute values are authentic.

func init() { generators["C01"] = genC01 }

type credCase struct {
	kp     *KeyPair
	cred   *gabi.Credential
	secret *big.Int
}

func makeCred(g *Rng, kp *KeyPair, nattr int) *credCase {
	attrs := make([]*big.Int, nattr)
	for i := range attrs {
		attrs[i] = attrValue(g, kp.pk.Params.Lm)
	}
	secret := randSecret(g)
	return &credCase{kp, issueCred(kp, secret, attrs), secret}
}

func subsetOf(mask int, n int) []int {
	var d []int
	for i := 0; i < n; i++ {
		if mask&(1<<i) != 0 {
			d = append(d, i+1) // never the secret key (index 0)
		}
	}
	return d
}

func verifyDOp(kid string, tree any, ctx, nonce *big.Int, issig bool, class, label string) Op {
	return Op{"op": "verifyD", "class": class, "label": label, "key": kid, "proof": tree,
		"context": hx(ctx), "nonce": hx(nonce), "issig": issig}
}

func attrExpGo(pk interface{ lm() uint }, a *big.Int) *big.Int { return nil }

func expOf(lm uint, a *big.Int) *big.Int {
	if a.BitLen() > int(lm) {
		return gabi.VerifIntHashSha256(a.Bytes())
	}
	return a
}

func genC01(g *Rng, tier string, emit func(Op)) {
	// (last, so that the classes below do not depend on what it draws) the negated oversized value,
	// in every run
	defer func() {
		kp := fixedKey("k1024a", false)
		for _, bits := range []int{257, 300, 1000} {
			x := g.exactBits(bits)
			cred := issueCred(kp, randSecret(g), []*big.Int{x, g.bits(60)})
			ctx, nonce := g.bits(256), g.bits(80)
			p, err := cred.CreateDisclosureProof([]int{1}, nil, false, ctx, nonce)
			if err != nil {
				panic(err)
			}
			t := proofDTree(p)
			emit(verifyDOp(kp.id, cloneTree(t), ctx, nonce, false, "oversized-disclosed-honest", "accept").with("direct", true))
			t["a_disclosed"].(T)["1"] = I(new(big.Int).Neg(x))
			emit(verifyDOp(kp.id, t, ctx, nonce, false, "negated-oversized-disclosed", "reject").with("direct", true).with("fkey", "C01/negated-oversized-disclosed"))
		}
	}()
	attributeHashThresholdOps(g, "C01/attribute-hash-threshold", emit)
	for _, o := range highIndexSplitOps(g, fixedKey("k1024a", false), "C01/split-at-high-index") {
		emit(o)
	}
	keys := []*KeyPair{toyKey("toy1", 6), fixedKey("k1024a", false)}
	ncreds := 2
	if tier == "thorough" {
		keys = append(keys, fixedKey("k2048", false), fixedKey("k1024b", false))
		ncreds = 10
	}
	for _, kp := range keys {
		emit(declKey(kp))
	}
	for _, kp := range keys {
		pk := kp.pk
		toy := pk.N.BitLen() < 1024
		order := kp.sk.Order
		for ci := 0; ci < ncreds; ci++ {
			nattr := 1 + g.intn(len(pk.R)-1)
			cc := makeCred(g, kp, nattr)
			// all disclosure sets for small credentials, a sample otherwise
			masks := []int{}
			for m := 0; m < 1<<nattr; m++ {
				masks = append(masks, m)
			}
			if len(masks) > 8 && tier != "thorough" {
				g.r.Shuffle(len(masks), func(i, j int) { masks[i], masks[j] = masks[j], masks[i] })
				masks = masks[:8]
			}
			for _, mask := range masks {
				disclosed := subsetOf(mask, nattr)
				ctx, nonce := g.bits(256), g.bits(int(pk.Params.Lstatzk))
				proof, err := cc.cred.CreateDisclosureProof(disclosed, nil, false, ctx, nonce)
				if err != nil {
					panic(err)
				}
				tree := proofDTree(proof)
				emit(verifyDOp(kp.id, tree, ctx, nonce, false, "honest", "accept"))
				c := proof.C
				lm := pk.Params.Lm

				// every single-field alteration
				leaves := leafPaths(tree)
				for _, lp := range leaves {
					t2 := cloneTree(tree)
					v := leafInt(t2, lp)
					var nv *big.Int
					switch g.intn(3) {
					case 0:
						nv = new(big.Int).Add(v, bi(1))
					case 1:
						nv = g.bits(v.BitLen() + 1)
					default:
						nv = new(big.Int).Xor(v, new(big.Int).Lsh(bi(1), uint(g.intn(v.BitLen()+1))))
					}
					if nv.Cmp(v) == 0 {
						nv = new(big.Int).Add(v, bi(2))
					}
					setAt(t2, lp, I(nv))
					emit(verifyDOp(kp.id, t2, ctx, nonce, false, "alter1"+classOfPath(lp), "reject"))
				}
				// forgery without any credential: with a non-unit A (0, N, 2N) every power of A is 0 and
				// so is the reconstructed commitment, whatever is "disclosed"; the challenge is
				// computed over (A, 0) by the forger himself
				if mask == masks[0] {
					for _, a := range []*big.Int{bi(0), new(big.Int).Set(pk.N), new(big.Int).Lsh(pk.N, 1)} {
						t2 := cloneTree(tree).(T)
						t2["A"] = I(a)
						fc := gabi.VerifCreateChallenge(ctx, nonce, []*big.Int{a, bi(0)}, false)
						t2["c"] = I(fc)
						for k := range t2["a_disclosed"].(T) {
							t2["a_disclosed"].(T)[k] = I(g.bits(int(lm)))
						}
						emit(verifyDOp(kp.id, t2, ctx, nonce, false, "forged-nonunit-A", "reject").with("fkey", "C01/nonunit-A"))
						// the same with the reduced value in the hash
						t3 := cloneTree(t2).(T)
						t3["c"] = I(gabi.VerifCreateChallenge(ctx, nonce, []*big.Int{new(big.Int).Mod(a, pk.N), bi(0)}, false))
						emit(verifyDOp(kp.id, t3, ctx, nonce, false, "forged-nonunit-A", "reject").with("fkey", "C01/nonunit-A"))
					}
				}
				// pairwise alterations (sample)
				for k := 0; k < 4 && len(leaves) > 1; k++ {
					a, b := g.intn(len(leaves)), g.intn(len(leaves))
					if a == b {
						continue
					}
					t2 := cloneTree(tree)
					setAt(t2, leaves[a], I(new(big.Int).Add(leafInt(t2, leaves[a]), bi(int64(1+g.intn(5))))))
					setAt(t2, leaves[b], I(new(big.Int).Add(leafInt(t2, leaves[b]), bi(int64(1+g.intn(5))))))
					emit(verifyDOp(kp.id, t2, ctx, nonce, false, "alter2", "reject"))
				}
				// split of a hidden attribute j into a disclosed part x and a hidden remainder:
				// a_disclosed[j] = x, a_responses[j] -= c*exp(x) keeps the verification equation
				for _, j := range sortedKeys(proof.AResponses) {
					xs := []*big.Int{bi(0), bi(1), new(big.Int).Add(cc.cred.Attributes[j], bi(1)), g.bits(int(lm))}
					for xi, x := range xs {
						rem := new(big.Int).Sub(proof.AResponses[j], new(big.Int).Mul(c, expOf(lm, x)))
						if rem.Sign() < 0 {
							continue
						}
						t2 := cloneTree(tree)
						t2.(T)["a_disclosed"].(T)[strconv.Itoa(j)] = I(x)
						t2.(T)["a_responses"].(T)[strconv.Itoa(j)] = I(rem)
						cls := "split"
						if j == 0 {
							cls = "split-secret"
						}
						emit(verifyDOp(kp.id, t2, ctx, nonce, false, cls, "reject").with("fkey", "C01/"+cls+"/x"+strconv.Itoa(xi)))
					}
					// index both disclosed and hidden without compensation
					t3 := cloneTree(tree)
					t3.(T)["a_disclosed"].(T)[strconv.Itoa(j)] = I(cc.cred.Attributes[j])
					emit(verifyDOp(kp.id, t3, ctx, nonce, false, "both-ways", "reject"))
				}
				// disclosed value reported for an index without base / moved to another index
				for _, i := range disclosed {
					t2 := cloneTree(tree)
					d := t2.(T)["a_disclosed"].(T)
					v := d[strconv.Itoa(i)]
					delete(d, strconv.Itoa(i))
					other := 1 + g.intn(len(pk.R)-1)
					if other == i || cc.cred.Attributes[i].Sign() == 0 {
						continue // a zero value contributes R^0 = 1 wherever it is reported
					}
					if _, taken := d[strconv.Itoa(other)]; taken {
						continue
					}
					if _, hidden := proof.AResponses[other]; hidden {
						continue
					}
					d[strconv.Itoa(other)] = v
					emit(verifyDOp(kp.id, t2, ctx, nonce, false, "moved-disclosed", "reject"))
				}
				// responses shifted by k*ord(QR_n): the equation still holds; the range check decides.
				for _, k := range []int64{1, -1, 2, 1 << 20} {
					shift := new(big.Int).Mul(order, bi(k))
					for _, j := range sortedKeys(proof.AResponses) {
						nv := new(big.Int).Add(proof.AResponses[j], shift)
						if nv.Sign() < 0 {
							continue // cannot be written in the wire format
						}
						t2 := cloneTree(tree)
						t2.(T)["a_responses"].(T)[strconv.Itoa(j)] = I(nv)
						label := "reject"
						if toy {
							label = "" // toy parameters (Lm = Ln): the shifted hidden response is in range; no value is misreported
						}
						emit(verifyDOp(kp.id, t2, ctx, nonce, false, "shift-response", label))
					}
					ne := new(big.Int).Add(proof.EResponse, shift)
					if ne.Sign() >= 0 {
						t2 := cloneTree(tree)
						t2.(T)["e_response"] = I(ne)
						label := "reject"
						if toy {
							label = ""
						}
						emit(verifyDOp(kp.id, t2, ctx, nonce, false, "shift-e-response", label))
					}
					// a disclosed value shifted by k*ord reports an unsigned value
					for _, i := range disclosed {
						nv := new(big.Int).Add(cc.cred.Attributes[i], shift)
						if nv.Sign() < 0 {
							continue
						}
						t2 := cloneTree(tree)
						t2.(T)["a_disclosed"].(T)[strconv.Itoa(i)] = I(nv)
						label := "reject"
						if toy {
							label = "" // Lm = Ln: the shifted value is not hashed and is the same exponent; property of the parameter set
						}
						emit(verifyDOp(kp.id, t2, ctx, nonce, false, "shift-disclosed", label))
					}
				}
				// a crafted member that reports values nobody signed, bound to nothing (its contribution
				// cannot be reconstructed), behind a genuine proof / alone
				if !toy && len(disclosed) > 0 {
					for _, o := range unboundMemberOps(g, []*KeyPair{kp}, []any{tree}, ctx, nonce, false, "C01/unbound-member") {
						emit(o)
					}
				}
				if !toy && len(disclosed) > 0 && len(pk.R) > 2 {
					for _, o := range ownChallengeMemberOps(g, kp, ctx, nonce, false, "C01/member-with-own-challenge") {
						emit(o)
					}
				}
				// a signature with an exponent far below its interval (e = 1 needs no private key at all:
				// A = Z / (S^v prod R_i^m_i)), presented with an e-randomiser large enough to keep the
				// e-response positive: only the bound on the e-response, as the specification derives it
				// (l_e' + l_statzk + l_h + 1 bits), stands in the way
				if !toy {
					for _, e := range []int64{1, 3, 65537} {
						fs := forgeSig(kp, cc.cred.Attributes, bi(e), g.exactBits(int(pk.Params.Lv)-1), nil)
						if fs == nil {
							continue
						}
						fc := &gabi.Credential{Pk: pk, Signature: fs, Attributes: cc.cred.Attributes}
						fb, err := fc.CreateDisclosureProofBuilder(disclosed, nil, false)
						if err != nil {
							continue
						}
						eC, _, _ := fb.VerifRandomizers()
						eC.Set(g.exactBits(int(pk.Params.Le + pk.Params.Lh + 2)))
						fch, err := gabi.ProofBuilderList{fb}.ChallengeWithRandomizers(ctx, nonce, map[string]*big.Int{"secretkey": g.bits(int(pk.Params.LmCommit) - 2)}, false)
						if err != nil {
							continue
						}
						fp := fb.CreateProof(fch).(*gabi.ProofD)
						if fp.EResponse.Sign() < 0 {
							continue
						}
						emit(verifyDOp(kp.id, proofDTree(fp), ctx, nonce, false, "small-e-signature-large-e-response", "reject").with("fkey", "C01/small-e-signature"))
					}
				}
				// in-memory proofs (no wire format carries a sign): a disclosed value longer than the message
				// length, negated. The attribute hash is over the magnitude, so -x meets the equation
				// of a credential over x - and is a value the issuer did not sign
				for _, i := range disclosed {
					if a := cc.cred.Attributes[i]; a.BitLen() > int(pk.Params.Lm) && !toy {
						t2 := cloneTree(tree)
						t2.(T)["a_disclosed"].(T)[strconv.Itoa(i)] = I(new(big.Int).Neg(a))
						emit(verifyDOp(kp.id, t2, ctx, nonce, false, "negated-oversized-disclosed", "reject").with("direct", true).with("fkey", "C01/negated-oversized-disclosed"))
					}
				}
				// in-memory proofs (no wire format): responses shifted by -k*ord are negative but still
				// satisfy the verification equation; they lie outside the allowed range
				for _, j := range sortedKeys(proof.AResponses) {
					k := new(big.Int).Div(proof.AResponses[j], order)
					k.Add(k, bi(1))
					nv := new(big.Int).Sub(proof.AResponses[j], new(big.Int).Mul(k, order))
					t2 := cloneTree(tree)
					t2.(T)["a_responses"].(T)[strconv.Itoa(j)] = I(nv)
					emit(verifyDOp(kp.id, t2, ctx, nonce, false, "negative-response", "reject").with("direct", true))
				}
				{
					k := new(big.Int).Div(proof.EResponse, order)
					k.Add(k, bi(1))
					t2 := cloneTree(tree)
					t2.(T)["e_response"] = I(new(big.Int).Sub(proof.EResponse, new(big.Int).Mul(k, order)))
					emit(verifyDOp(kp.id, t2, ctx, nonce, false, "negative-e-response", "reject").with("direct", true))
				}
				// toy keys (small group order): the smallest representative above the allowed range
				if toy {
					for _, j := range sortedKeys(proof.AResponses) {
						lim := new(big.Int).Lsh(bi(1), pk.Params.LmCommit+1)
						k := new(big.Int).Sub(lim, proof.AResponses[j])
						k.Div(k, order).Add(k, bi(1))
						nv := new(big.Int).Add(proof.AResponses[j], new(big.Int).Mul(k, order))
						t2 := cloneTree(tree)
						t2.(T)["a_responses"].(T)[strconv.Itoa(j)] = I(nv)
						emit(verifyDOp(kp.id, t2, ctx, nonce, false, "shift-just-above-range", "reject"))
					}
					lim := new(big.Int).Lsh(bi(1), pk.Params.LeCommit+1)
					k := new(big.Int).Sub(lim, proof.EResponse)
					k.Div(k, order).Add(k, bi(1))
					t2 := cloneTree(tree)
					t2.(T)["e_response"] = I(new(big.Int).Add(proof.EResponse, new(big.Int).Mul(k, order)))
					emit(verifyDOp(kp.id, t2, ctx, nonce, false, "shift-e-just-above-range", "reject"))
				}
				// boundary of the response range: the largest accepted and the first rejected value
				// cannot be reached without breaking the equation, so they must be rejected anyway
				maxA := new(big.Int).Lsh(bi(1), pk.Params.LmCommit+1)
				for _, j := range sortedKeys(proof.AResponses) {
					t2 := cloneTree(tree)
					t2.(T)["a_responses"].(T)[strconv.Itoa(j)] = I(maxA)
					emit(verifyDOp(kp.id, t2, ctx, nonce, false, "range-boundary", "reject"))
				}
				// wrong session
				emit(verifyDOp(kp.id, tree, new(big.Int).Add(ctx, bi(1)), nonce, false, "other-context", "reject"))
				emit(verifyDOp(kp.id, tree, ctx, new(big.Int).Add(nonce, bi(1)), false, "other-nonce", "reject"))
				emit(verifyDOp(kp.id, tree, ctx, nonce, true, "other-kind", "reject"))
			}
		}
	}
	// the same range demands hold for proofs that carry a non-revocation part (a separate path in
	// the verifier): responses shifted by multiples of the group order keep every equation
	{
		kp := fixedKey("k1024a", true)
		emit(declKey(kp))
		pk, order := kp.pk, kp.sk.Order
		for r := 0; r < 2; r++ {
			rs := revSetup(kp)
			cred := issueCred(kp, randSecret(g), []*big.Int{g.bits(200), rs.witness.E, g.bits(90)})
			cred.NonRevocationWitness = rs.witness
			ctx, nonce := g.bits(256), g.bits(int(pk.Params.Lstatzk))
			var proof *gabi.ProofD
			var tree T
			for try := 0; ; try++ {
				p, err := cred.CreateDisclosureProof([]int{3}, nil, true, ctx, nonce)
				if err != nil {
					panic(err)
				}
				proof, tree = p, proofDTree(p)
				if !ambiguous(tree) || try > 5 {
					break // (the known ambiguity of C11 is not this property's concern)
				}
			}
			emit(verifyDOp(kp.id, tree, ctx, nonce, false, "nonrev-honest", "accept").with("sigviews", sigViews(tree, []*KeyPair{kp})))
			for _, j := range sortedKeys(proof.AResponses) {
				if j == 2 {
					continue // the revocation attribute's response is also bound by the non-revocation part
				}
				t2 := cloneTree(tree).(T)
				t2["a_responses"].(T)[strconv.Itoa(j)] = I(new(big.Int).Add(proof.AResponses[j], order))
				emit(verifyDOp(kp.id, t2, ctx, nonce, false, "nonrev-shift-response", "reject").with("sigviews", sigViews(t2, []*KeyPair{kp})))
				k := new(big.Int).Div(proof.AResponses[j], order)
				k.Add(k, bi(1))
				t3 := cloneTree(tree).(T)
				t3["a_responses"].(T)[strconv.Itoa(j)] = I(new(big.Int).Sub(proof.AResponses[j], new(big.Int).Mul(k, order)))
				emit(verifyDOp(kp.id, t3, ctx, nonce, false, "nonrev-negative-response", "reject").with("sigviews", sigViews(t3, []*KeyPair{kp})).with("direct", true))
			}
			t2 := cloneTree(tree).(T)
			t2["e_response"] = I(new(big.Int).Add(proof.EResponse, order))
			emit(verifyDOp(kp.id, t2, ctx, nonce, false, "nonrev-shift-e-response", "reject").with("sigviews", sigViews(t2, []*KeyPair{kp})))
		}
	}
}

func (o Op) with(k string, v any) Op { o[k] = v; return o }

func classOfPath(p Path) string {
	if len(p) == 0 {
		return ""
	}
	if s, ok := p[0].(string); ok {
		return "-" + s
	}
	return ""
}
