package main

import (
	"strconv"

	"github.com/privacybydesign/gabi"
	"github.com/privacybydesign/gabi/big"
	"github.com/privacybydesign/gabi/rangeproof"
	"github.com/privacybydesign/gabi/revocation"
)

// "direct" mode: trees are turned into in-memory proof objects without the wire format, so that
// values the wire format cannot carry (negative integers) reach the verifier as well.

func tInt(v any) *big.Int {
	if v == nil {
		return nil
	}
	if h, ok := isLeafI(v); ok {
		return unhx(h)
	}
	return nil
}

func tIntMap(v any) map[int]*big.Int {
	m, ok := v.(map[string]any)
	if !ok {
		return nil
	}
	r := map[int]*big.Int{}
	for k, x := range m {
		i, err := strconv.Atoi(k)
		if err != nil {
			continue
		}
		r[i] = tInt(x)
	}
	return r
}

func tInts(v any) []*big.Int {
	arr, ok := v.([]any)
	if !ok {
		return nil
	}
	r := make([]*big.Int, len(arr))
	for i, x := range arr {
		r[i] = tInt(x)
	}
	return r
}

func tNum(v any) int64 {
	switch n := v.(type) {
	case int:
		return int64(n)
	case uint64:
		return int64(n)
	case float64:
		return int64(n)
	case interface{ Int64() (int64, error) }:
		x, _ := n.Int64()
		return x
	}
	return 0
}

func treeToProofD(t any) *gabi.ProofD {
	m := t.(map[string]any)
	p := &gabi.ProofD{C: tInt(m["c"]), A: tInt(m["A"]), EResponse: tInt(m["e_response"]), VResponse: tInt(m["v_response"]),
		AResponses: tIntMap(m["a_responses"]), ADisclosed: tIntMap(m["a_disclosed"])}
	if nr, ok := m["nonrev_proof"].(map[string]any); ok {
		np := &revocation.Proof{Cr: tInt(nr["C_r"]), Cu: tInt(nr["C_u"])}
		if rs, ok := nr["responses"].(map[string]any); ok {
			np.Responses = map[string]*big.Int{}
			for k, v := range rs {
				np.Responses[k] = tInt(v)
			}
		}
		if sa, ok := nr["sacc"].(map[string]any); ok {
			s := &revocation.SignedAccumulator{PKCounter: uint(tNum(sa["pk"]))}
			if h, ok := isLeafB(sa["data"]); ok {
				s.Data = unhb(h)
			}
			np.SignedAccumulator = s
		}
		p.NonRevocationProof = np
	}
	if rps, ok := m["rangeproofs"].(map[string]any); ok {
		p.RangeProofs = map[int][]*rangeproof.Proof{}
		for k, v := range rps {
			i, err := strconv.Atoi(k)
			if err != nil {
				continue
			}
			arr, _ := v.([]any)
			for _, x := range arr {
				rm, ok := x.(map[string]any)
				if !ok {
					p.RangeProofs[i] = append(p.RangeProofs[i], nil)
					continue
				}
				p.RangeProofs[i] = append(p.RangeProofs[i], &rangeproof.Proof{Cs: tInts(rm["Cs"]), DResponses: tInts(rm["ds"]),
					VResponses: tInts(rm["vs"]), V5Response: tInt(rm["v5"]), Ld: uint(tNum(rm["l_d"])), Sign: int(tNum(rm["sign"])),
					A: uint(tNum(rm["a"])), K: tInt(rm["k"]), MResponse: tInt(rm["m_response"])}) // m_response: in memory only
			}
		}
	}
	return p
}

func treeToProofU(t any) *gabi.ProofU {
	m := t.(map[string]any)
	return &gabi.ProofU{U: tInt(m["U"]), C: tInt(m["c"]), VPrimeResponse: tInt(m["v_prime_response"]), SResponse: tInt(m["s_response"]),
		MUserResponses: tIntMap(m["m_user_responses"])}
}

func treesToProofList(v any) gabi.ProofList {
	arr, _ := v.([]any)
	var pl gabi.ProofList
	for _, x := range arr {
		m, _ := x.(map[string]any)
		if _, isD := m["A"]; isD {
			pl = append(pl, treeToProofD(x))
		} else {
			pl = append(pl, treeToProofU(x))
		}
	}
	return pl
}
