package main

import (
	"encoding/json"
	"fmt"
	"strconv"
	"strings"
	"time"

	"github.com/privacybydesign/gabi"
	"github.com/privacybydesign/gabi/big"
	"github.com/privacybydesign/gabi/revocation"
)

// C06: issuance — honest runs succeed, deviations are rejected.

func clsigTree(s *gabi.CLSignature) any {
	if s == nil {
		return nil
	}
	t := T{"A": I(s.A), "e": I(s.E), "v": I(s.V)}
	if s.KeyshareP != nil {
		t["KeyshareP"] = I(s.KeyshareP)
	}
	return t
}

func witnessTree(w *revocation.Witness) any {
	if w == nil {
		return nil
	}
	return T{"u": I(w.U), "e": I(w.E), "sacc": saccTree(&revocation.SignedAccumulator{Data: w.SignedAccumulator.Data, PKCounter: w.SignedAccumulator.PKCounter})}
}

func issueMsgTree(m *gabi.IssueSignatureMessage) T {
	t := T{"proof": T{"c": I(m.Proof.C), "e_response": I(m.Proof.EResponse)}, "signature": clsigTree(m.Signature)}
	if m.NonRevocationWitness != nil {
		t["nonrev"] = witnessTree(m.NonRevocationWitness)
	}
	if len(m.MIssuer) > 0 {
		t["m_issuer"] = Imap(m.MIssuer)
	}
	return t
}

func optHxs(l []*big.Int) []any {
	r := make([]any, len(l))
	for i, x := range l {
		r[i] = hx(x)
	}
	return r
}

func init() {
	generators["C06"] = genC06
	executors["construct"] = func(o Op) string {
		kp := execKey(o.str("key"))
		b := o["builder"].(map[string]any)
		mUser := map[int]*big.Int{}
		for _, p := range b["mUser"].([]any) {
			pp := p.([]any)
			mUser[int(unhx(pp[0]).Int64())] = unhx(pp[1])
		}
		cb := gabi.VerifNewCredentialBuilder(kp.pk, unhx(b["context"]), unhx(b["secret"]), unhx(b["nonce2"]), unhx(b["keyshareP"]), unhx(b["vPrime"]), mUser)
		raw := treeToGabiJSON(o["msg"])
		var msg gabi.IssueSignatureMessage
		if err := json.Unmarshal(raw, &msg); err != nil {
			return "decode-error"
		}
		attrs := unhxs(o["attributes"])
		cred, err := cb.ConstructCredential(&msg, attrs)
		if err != nil {
			return "rejected"
		}
		vals := make([]string, len(cred.Attributes))
		for i, a := range cred.Attributes {
			vals[i] = showInt(a)
		}
		return "ok:" + strings.Join(vals, ",") + " v=" + showInt(cred.Signature.V)
	}
}

type issuanceRun struct {
	kp       *KeyPair
	op       Op // the honest construct op
	msg      T
	expected string
}

func honestIssuance(g *Rng, kp *KeyPair, nattr int, blind []int, keyshare, witness bool, emit func(Op)) *issuanceRun {
	pk := kp.pk
	context, nonce1, nonce2 := g.bits(256), g.bits(int(pk.Params.Lstatzk)), g.bits(int(pk.Params.Lstatzk))
	secret := randSecret(g)
	var ksP *big.Int
	if keyshare {
		ksP = new(big.Int).Exp(pk.R[0], g.bits(255), pk.N)
	}
	attrs := make([]*big.Int, nattr)
	isBlind := map[int]bool{}
	for _, b := range blind {
		isBlind[b] = true
	}
	var rs *revState
	for i := range attrs {
		if !isBlind[i] {
			attrs[i] = attrValue(g, pk.Params.Lm)
		}
	}
	if witness {
		rs = revSetup(kp)
		// the last non-blind attribute carries the witness value
		for i := nattr - 1; i >= 0; i-- {
			if !isBlind[i] {
				attrs[i] = rs.witness.E
				break
			}
		}
	}
	b, err := gabi.NewCredentialBuilder(pk, context, secret, nonce2, ksP, blind)
	if err != nil {
		panic(err)
	}
	commitMsg, err := b.CommitToSecretAndProve(nonce1)
	if err != nil {
		panic(err)
	}
	// issuer side: check the commitment proof (message 1) ...
	trees := proofListTrees(commitMsg.Proofs)
	if !keyshare {
		emit(listOp([]*KeyPair{kp}, trees, context, nonce1, false, nil, "commitment-proof", "accept"))
	} // with a keyshare server the commitment only verifies after merging the server's ProofP (C14)
	emit(listOp([]*KeyPair{kp}, trees, context, new(big.Int).Add(nonce1, bi(1)), false, nil, "commitment-proof-other-nonce", "reject"))
	emit(listOp([]*KeyPair{kp}, trees, new(big.Int).Add(context, bi(1)), nonce1, false, nil, "commitment-proof-other-context", "reject"))
	for _, lp := range leafPaths(any(trees)) {
		t2 := cloneTree(any(trees))
		setAt(t2, lp, I(new(big.Int).Add(leafInt(t2, lp), bi(1))))
		emit(listOp([]*KeyPair{kp}, t2.([]any), context, nonce1, false, nil, "commitment-proof-altered", "reject"))
	}
	// responses shifted by multiples of the group order keep the verification equation: the range
	// check alone decides (in-memory proofs for the negative ones)
	if pu, ok := commitMsg.Proofs[0].(*gabi.ProofU); ok && !keyshare {
		order := kp.sk.Order
		lim := new(big.Int).Lsh(bi(1), pk.Params.LvPrimeCommit+1)
		k := new(big.Int).Div(pu.VPrimeResponse, order)
		k.Add(k, bi(1))
		neg := new(big.Int).Sub(pu.VPrimeResponse, new(big.Int).Mul(k, order))
		k2 := new(big.Int).Sub(lim, pu.VPrimeResponse)
		k2.Div(k2, order).Add(k2, bi(1))
		above := new(big.Int).Add(pu.VPrimeResponse, new(big.Int).Mul(k2, order))
		for _, c := range []struct {
			class string
			v     *big.Int
		}{{"vprime-response-negative", neg}, {"vprime-response-above-range", above}} {
			t2 := cloneTree(any(trees)).([]any)
			t2[0].(T)["v_prime_response"] = I(c.v)
			o := listOp([]*KeyPair{kp}, t2, context, nonce1, false, nil, "commitment-proof-"+c.class, "reject")
			o["direct"] = true
			emit(o)
		}
	}
	issuer := gabi.NewIssuer(kp.sk, pk, context)
	var w *revocation.Witness
	if witness {
		w = rs.witness
	}
	msg, err := issuer.IssueSignature(commitMsg.U, attrs, w, nonce2, blind)
	if err != nil {
		// an honest run that the issuer refuses: the parameters are the failing input
		emit(Op{"op": "recorded", "class": fmt.Sprintf("issuer-refuses-honest-run-blind%v", blind), "label": "issued", "nomodel": true,
			"result": "refused: " + err.Error(), "nattr": nattr, "blind": intsAny(blind), "keyshare": keyshare, "witness": witness})
		return nil
	}
	_, vPrime, _, _, mUser, _ := b.VerifState()
	// expected credential: (secret, attrs) with blind attributes = user share + issuer share
	exp := []string{showInt(secret)}
	for i, a := range attrs {
		if isBlind[i] {
			exp = append(exp, showInt(new(big.Int).Add(mUser[i+1], msg.MIssuer[i+1])))
		} else {
			exp = append(exp, showInt(a))
		}
	}
	var mu []any
	for _, k := range sortedKeys(mUser) {
		mu = append(mu, []any{hxi(int64(k)), hx(mUser[k])})
	}
	if mu == nil {
		mu = []any{}
	}
	tree := issueMsgTree(msg)
	op := Op{"op": "construct", "class": fmt.Sprintf("honest-blind%d-ks%v-w%v", len(blind), keyshare, witness), "key": kp.id,
		"builder":    map[string]any{"secret": hx(secret), "vPrime": hx(vPrime), "context": hx(context), "nonce2": hx(nonce2), "keyshareP": hx(ksP), "mUser": mu},
		"msg":        tree,
		"attributes": optHxs(attrs),
		"label":      "ok:" + strings.Join(exp, ",")}
	if witness {
		op["sigviews"] = sigViews(tree, []*KeyPair{kp})
	}
	if !keyshare {
		// a deviating issuer signs over U*R0^x and names R0^x as a keyshare contribution in its
		// message: a holder that has no keyshare server must not take that field over (the result
		// would not be a signature over exactly (secret, attributes))
		x := g.bits(200)
		px := new(big.Int).Exp(pk.R[0], x, pk.N)
		u2 := new(big.Int).Mul(commitMsg.U, px)
		u2.Mod(u2, pk.N)
		if m2, err := issuer.IssueSignature(u2, attrs, w, nonce2, blind); err == nil {
			m2.Signature.KeyshareP = px
			o := cloneOp(op)
			o["msg"] = issueMsgTree(m2)
			o["class"], o["label"] = "issuer-smuggles-keyshare-factor", "rejected"
			if witness {
				o["sigviews"] = sigViews(o["msg"], []*KeyPair{kp})
			}
			emit(o)
		}
	}
	if witness {
		// the witness altered, and the message's unauthenticated time stamp set to the time of the
		// signed accumulator (as if the witness had been checked against it already)
		if acc, err := w.SignedAccumulator.UnmarshalVerify(pk); err == nil {
			for _, stamp := range []string{time.Unix(acc.Time, 0).UTC().Format(time.RFC3339), time.Unix(acc.Time, 0).Format(time.RFC3339Nano)} {
				o := cloneOp(op)
				nr, _ := o["msg"].(map[string]any)["nonrev"].(map[string]any)
				if nr == nil {
					break
				}
				u := new(big.Int).Add(w.U, bi(1))
				nr["u"] = I(u.Mod(u, pk.N))
				nr["Updated"] = T{"$raw": strconv.Quote(stamp)}
				o["class"], o["label"] = "msg2-altered-witness-with-timestamp", "rejected"
				o["fkey"] = "C06/altered-witness-with-timestamp"
				o["sigviews"] = sigViews(o["msg"], []*KeyPair{kp})
				emit(o)
			}
		}
	}
	if !keyshare && len(blind) == 0 && !witness {
		// a deviating issuer runs issuance honestly except for the exponent, which it picks itself:
		// composite inside the interval, prime outside it. Equation and ProofS hold; the holder
		// must refuse the credential.
		lo := new(big.Int).Lsh(bi(1), pk.Params.Le-1)
		hi := new(big.Int).Add(lo, new(big.Int).Lsh(bi(1), pk.Params.LePrime-1))
		compositeIn := func() *big.Int {
			for {
				e := new(big.Int).Add(lo, g.bits(int(pk.Params.LePrime)-2))
				e.SetBit(e, 0, 1)
				if !e.ProbablyPrime(30) && new(big.Int).ModInverse(e, kp.sk.Order) != nil {
					return e
				}
			}
		}
		for _, c := range []struct {
			class string
			e     *big.Int
		}{
			{"issuer-picks-composite-e-in-interval", compositeIn()},
			{"issuer-picks-semiprime-e-in-interval", semiprimeIn(g, lo, hi)},
			{"issuer-picks-prime-e-above-interval", nextPrime(new(big.Int).Add(hi, g.bits(40)), 1)},
			{"issuer-picks-prime-e-below-interval", nextPrime(new(big.Int).Sub(lo, g.bits(40)), -1)},
			{"issuer-picks-composite-e-above-interval", new(big.Int).Mul(nextPrime(g.bits(int(pk.Params.Le)/2+1), 1), nextPrime(g.bits(int(pk.Params.Le)/2+1), 1))},
		} {
			if c.e == nil {
				continue
			}
			m2 := deviatingIssue(g, kp, context, commitMsg.U, attrs, nonce2, c.e)
			if m2 == nil {
				continue
			}
			o := cloneOp(op)
			o["msg"] = issueMsgTree(m2)
			o["class"], o["label"] = c.class, "rejected"
			o["fkey"] = "C06/" + c.class
			emit(o)
		}
	}
	return &issuanceRun{kp, op, tree, op["label"].(string)}
}

func cloneOp(o Op) Op { return Op(cloneTree(map[string]any(o)).(map[string]any)) }

func genC06(g *Rng, tier string, emit func(Op)) {
	keys := []*KeyPair{fixedKey("k1024a", true)}
	if tier == "thorough" {
		keys = append(keys, fixedKey("k2048", true), toyKey("toy1", 6))
	}
	for _, kp := range keys {
		emit(declKey(kp))
	}
	// several credentials issued in one session: the commitment message carries one proof per
	// credential (a list the issuer reads from its wire form)
	for _, shape := range [][]bool{{true, true}, {true, true, true}, {true, false, true}, {false, true, true}} {
		specs := make([]builderSpec, len(shape))
		for i, iss := range shape {
			specs[i] = builderSpec{kp: keys[0], issuance: iss}
		}
		s := buildSession(g, specs, randSecret(g), false)
		emit(listOp(s.keys, s.trees, s.ctx, s.nonce, false, nil, fmt.Sprintf("multi-credential-commitments-%d", len(shape)), "accept"))
	}
	// the issuer sends a fresh nonce and the holder proves its commitment again with the same
	// builder: the second proof verifies for the second nonce (and an honest run goes on from there)
	for i := 0; i < 2; i++ {
		emit(recommitRun(g, keys[0], i == 1))
	}
	// a commitment that is no group element, with the challenge that counts it in as (U, 0)
	for _, o := range forgedNonunitUOps(g, keys[0], g.bits(256), g.bits(80), false, "C06/forged-nonunit-U") {
		emit(o)
	}
	// the legacy keyshare protocol (the server's answer carries P = R0^share): the holder strips
	// the keyshare factor from its proof, merges the server's answer and sends its builder's
	// commitment message; the honest run ends with a credential over (both shares, attributes)
	for i := 0; i < 2; i++ {
		emit(legacyKeyshareRun(g, keys[0], i == 1))
	}
	var prev *issuanceRun
	// the parameter set with Lm != Lh (4096-bit moduli): attributes between the hash length and
	// the message length, and random-blind attributes, are signed as they are
	{
		kp := key4096("k4096", 3)
		emit(declKey(kp))
		nruns := 0
		for _, blind := range [][]int{nil, {0}, {1}, {0, 1}} {
			for _, keyshare := range []bool{false, true} {
				if tier != "thorough" && keyshare && len(blind) != 1 {
					continue
				}
				run := honestIssuance(g, kp, 2, blind, keyshare, false, emit)
				if run == nil {
					continue
				}
				emit(run.op)
				if tier == "thorough" || nruns < 2 {
					emitIssuanceAlterations(g, run, nil, emit)
				}
				nruns++
			}
		}
	}
	for _, kp := range keys {
		nR := len(kp.pk.R) - 1
		for nattr := 1; nattr <= nR && nattr <= 4; nattr++ {
			masks := 1 << nattr
			for mask := 0; mask < masks; mask++ {
				if tier != "thorough" && mask%3 != 0 && mask != masks-1 {
					continue
				}
				var blind []int
				for i := 0; i < nattr; i++ {
					if mask&(1<<i) != 0 {
						blind = append(blind, i)
					}
				}
				for _, keyshare := range []bool{false, true} {
					for _, witness := range []bool{false, true} {
						if witness && len(blind) == nattr {
							continue // no non-blind attribute to carry the witness value
						}
						if tier != "thorough" && (keyshare != witness) && mask%2 == 1 {
							continue
						}
						run := honestIssuance(g, kp, nattr, blind, keyshare, witness, emit)
						if run == nil {
							continue
						}
						emit(run.op)
						emitIssuanceAlterations(g, run, prev, emit)
						prev = run
					}
				}
			}
		}
	}
}

func emitIssuanceAlterations(g *Rng, run, prev *issuanceRun, emit func(Op)) {
	// every single-field alteration of the issuer's message
	for _, lp := range leafPaths(any(run.msg)) {
		o := cloneOp(run.op)
		m := o["msg"]
		if _, isB := isLeafB(mustGet(m, lp)); isB {
			continue
		}
		setAt(m, lp, I(new(big.Int).Add(leafInt(m, lp), bi(1))))
		o["class"], o["label"] = "msg2-altered"+classOfPath(lp), "rejected"
		if strings.HasPrefix(classOfPath(lp), "-nonrev") {
			o["sigviews"] = sigViews(m, []*KeyPair{run.kp})
		}
		emit(o)
	}
	// structural deviations
	for _, del := range []string{"proof", "signature", "m_issuer", "nonrev"} {
		if _, ok := run.msg[del]; !ok {
			continue
		}
		o := cloneOp(run.op)
		delete(o["msg"].(map[string]any), del)
		o["class"] = "msg2-missing-" + del
		o["label"] = "rejected|decode-error"
		if del == "nonrev" {
			// without the witness the credential is still correctly signed: the holder accepts it
			o["label"] = ""
		}
		emit(o)
	}
	if mi, ok := run.msg["m_issuer"].(T); ok {
		for k := range mi {
			o := cloneOp(run.op)
			delete(o["msg"].(map[string]any)["m_issuer"].(map[string]any), k)
			o["class"], o["label"] = "msg2-missing-share", "rejected"
			emit(o)
			o2 := cloneOp(run.op)
			o2["msg"].(map[string]any)["m_issuer"].(map[string]any)[k] = nil
			o2["class"], o2["label"] = "msg2-null-share", "rejected"
			emit(o2)
		}
	}
	// the holder's own state differs from what the issuer used: nonce, context
	for _, f := range []string{"nonce2", "context"} {
		o := cloneOp(run.op)
		b := o["builder"].(map[string]any)
		b[f] = hx(new(big.Int).Add(unhx(b[f]), bi(1)))
		o["class"], o["label"] = "other-"+f, "rejected"
		emit(o)
	}
	{
		o := cloneOp(run.op)
		b := o["builder"].(map[string]any)
		b["vPrime"] = hx(new(big.Int).Add(unhx(b["vPrime"]), bi(1)))
		o["class"], o["label"] = "other-vprime", "rejected"
		emit(o)
	}
	// replay of parts of another run
	if prev != nil && prev.kp == run.kp {
		for _, part := range []string{"proof", "signature", "nonrev", "m_issuer"} {
			pv, ok := prev.msg[part]
			if !ok {
				continue
			}
			if _, ok := run.msg[part]; !ok {
				continue
			}
			o := cloneOp(run.op)
			o["msg"].(map[string]any)[part] = cloneTree(pv)
			o["class"], o["label"] = "replayed-"+part, "rejected"
			if part == "nonrev" {
				o["sigviews"] = sigViews(o["msg"], []*KeyPair{run.kp})
			}
			emit(o)
		}
	}
	_ = strconv.Itoa
}

func mustGet(t any, p Path) any {
	n, _ := getAt(t, p)
	return n
}

// semiprimeIn: a product of two primes inside [lo, hi] (nil when none is found quickly).
func semiprimeIn(g *Rng, lo, hi *big.Int) *big.Int {
	half := lo.BitLen() / 2
	for tries := 0; tries < 200; tries++ {
		p := nextPrime(g.bits(half), 1)
		q := new(big.Int).Div(lo, p)
		q = nextPrime(q.Add(q, bi(1)), 1)
		e := new(big.Int).Mul(p, q)
		if e.Cmp(lo) >= 0 && e.Cmp(hi) <= 0 {
			return e
		}
	}
	return nil
}

// deviatingIssue: the issuer's second message with an exponent of the issuer's own choosing; the
// signature equation holds for the holder's commitment and ProofS is a genuine proof of knowledge
// of 1/e.
func deviatingIssue(g *Rng, kp *KeyPair, context, U *big.Int, attrs []*big.Int, nonce2, e *big.Int) *gabi.IssueSignatureMessage {
	pk := kp.pk
	d := new(big.Int).ModInverse(e, kp.sk.Order)
	if d == nil {
		return nil
	}
	v := g.bits(int(pk.Params.Lv) - 1)
	v.SetBit(v, int(pk.Params.Lv)-1, 1)
	ms := append([]*big.Int{bi(0)}, attrs...)
	num := new(big.Int).Exp(pk.S, v, pk.N)
	num.Mul(num, gabi.VerifRepresentToBases(pk.R, ms, pk.N, pk.Params.Lm)).Mod(num, pk.N)
	num.Mul(num, U).Mod(num, pk.N)
	Q := new(big.Int).Mul(pk.Z, new(big.Int).ModInverse(num, pk.N))
	Q.Mod(Q, pk.N)
	A := new(big.Int).Exp(Q, d, pk.N)
	r := new(big.Int).Mod(g.bits(kp.sk.Order.BitLen()+64), kp.sk.Order)
	ACommit := new(big.Int).Exp(Q, r, pk.N)
	c := gabi.VerifHashCommit([]*big.Int{context, Q, A, nonce2, ACommit}, false)
	resp := new(big.Int).Mul(c, d)
	resp.Sub(r, resp).Mod(resp, kp.sk.Order)
	return &gabi.IssueSignatureMessage{
		Signature: &gabi.CLSignature{A: A, E: e, V: v},
		Proof:     &gabi.ProofS{C: c, EResponse: resp},
		MIssuer:   map[int]*big.Int{},
	}
}

func legacyKeyshareRun(g *Rng, kp *KeyPair, mergeFirst bool) Op {
	pk := kp.pk
	res := func() (r string) {
		defer func() {
			if e := recover(); e != nil {
				r = fmt.Sprintf("panic: %v", e)
			}
		}()
		ctx, nonce1, nonce2 := g.bits(256), g.bits(80), g.bits(80)
		userSecret := g.bits(int(pk.Params.Lm) - 2)
		kssSecret, err := gabi.NewKeyshareSecret()
		if err != nil {
			return "failed: " + err.Error()
		}
		kssRand, kssComm, err := gabi.NewKeyshareCommitments(kssSecret, []*gabikeysPublicKey{pk})
		if err != nil {
			return "failed: " + err.Error()
		}
		cb, err := gabi.NewCredentialBuilder(pk, ctx, userSecret, nonce2, kssComm[0].P, nil)
		if err != nil {
			return "failed: " + err.Error()
		}
		cb.SetProofPCommitment(kssComm[0])
		builders := gabi.ProofBuilderList{cb}
		rnd := map[string]*big.Int{"secretkey": g.bits(int(pk.Params.LmCommit) - 2)}
		c, err := builders.ChallengeWithRandomizers(ctx, nonce1, rnd, false)
		if err != nil {
			return "failed: " + err.Error()
		}
		proofs, err := builders.BuildDistributedProofList(c, nil)
		if err != nil {
			return "failed: " + err.Error()
		}
		pu, err := proofs.GetFirstProofU()
		if err != nil {
			return "failed: " + err.Error()
		}
		pp := gabi.KeyshareResponseLegacy(kssSecret, kssRand, c, pk)
		if mergeFirst {
			pu.MergeProofP(pp, pk)
		} else {
			pu.RemoveKeyshareP(cb)
			pu.MergeProofP(pp, pk)
		}
		msg := cb.CreateIssueCommitmentMessage(proofs)
		if !mergeFirst && !msg.Proofs.Verify([]*gabikeysPublicKey{pk}, ctx, nonce1, false, nil) {
			return "failed: commitment proof does not verify"
		}
		if mergeFirst {
			return "issued" // this order is not the documented one: only "no crash" is demanded
		}
		attrs := []*big.Int{g.bits(100), g.bits(100)}
		ism, err := gabi.NewIssuer(kp.sk, pk, ctx).IssueSignature(msg.U, attrs, nil, msg.Nonce2, nil)
		if err != nil {
			return "failed: issuer: " + err.Error()
		}
		cred, err := cb.ConstructCredential(ism, attrs)
		if err != nil {
			return "failed: holder: " + err.Error()
		}
		if !cred.Signature.Verify(pk, cred.Attributes) {
			return "failed: signature does not verify"
		}
		total := new(big.Int).Add(userSecret, kssSecret)
		_ = total
		return "issued"
	}()
	return Op{"op": "recorded", "class": fmt.Sprintf("legacy-keyshare-issuance-mergefirst%v", mergeFirst), "label": "issued", "nomodel": true,
		"fkey": "C06/legacy-keyshare-issuance", "result": res, "key": kp.id}
}

func recommitRun(g *Rng, kp *KeyPair, blind bool) Op {
	pk := kp.pk
	res := func() (r string) {
		defer func() {
			if e := recover(); e != nil {
				r = fmt.Sprintf("panic: %v", e)
			}
		}()
		ctx, nonce2 := g.bits(256), g.bits(80)
		var bl []int
		if blind {
			bl = []int{1}
		}
		cb, err := gabi.NewCredentialBuilder(pk, ctx, randSecret(g), nonce2, nil, bl)
		if err != nil {
			return "failed: " + err.Error()
		}
		var msg *gabi.IssueCommitmentMessage
		for round := 0; round < 3; round++ {
			nonce1 := g.bits(80)
			msg, err = cb.CommitToSecretAndProve(nonce1)
			if err != nil {
				return "failed: " + err.Error()
			}
			if !msg.Proofs.Verify([]*gabikeysPublicKey{pk}, ctx, nonce1, false, nil) {
				return fmt.Sprintf("failed: commitment proof %d does not verify for its nonce", round+1)
			}
		}
		attrs := []*big.Int{g.bits(100), g.bits(100)}
		if blind {
			attrs[1] = nil
		}
		ism, err := gabi.NewIssuer(kp.sk, pk, ctx).IssueSignature(msg.U, attrs, nil, nonce2, bl)
		if err != nil {
			return "failed: issuer: " + err.Error()
		}
		if _, err := cb.ConstructCredential(ism, attrs); err != nil {
			return "failed: holder: " + err.Error()
		}
		return "issued"
	}()
	return Op{"op": "recorded", "class": fmt.Sprintf("commitment-proved-again-blind%v", blind), "label": "issued", "nomodel": true,
		"fkey": "C06/commitment-proved-again", "result": res, "key": kp.id}
}
