package main

import (
	"encoding/hex"
	"encoding/json"
	"fmt"
	gobig "math/big"
	"sort"

	"github.com/privacybydesign/gabi/big"
)

// Op is one line of the protocol: a JSON object with "op", optional "label"/"class", and arguments.
type Op map[string]any

func hx(x *big.Int) any {
	if x == nil {
		return nil
	}
	return x.Go().Text(16)
}

func hxs(xs []*big.Int) []any {
	r := make([]any, len(xs))
	for i, x := range xs {
		r[i] = hx(x)
	}
	return r
}

func hxi(i int64) any { return gobig.NewInt(i).Text(16) }

func hxmap(m map[int]*big.Int) []any {
	keys := make([]int, 0, len(m))
	for k := range m {
		keys = append(keys, k)
	}
	sort.Ints(keys)
	r := make([]any, 0, len(m))
	for _, k := range keys {
		r = append(r, []any{hxi(int64(k)), hx(m[k])})
	}
	return r
}

func hb(b []byte) string { return hex.EncodeToString(b) }

func unhx(v any) *big.Int {
	if v == nil {
		return nil
	}
	s, ok := v.(string)
	if !ok {
		panic(fmt.Sprintf("unhx: not a string: %v", v))
	}
	z, ok := new(gobig.Int).SetString(s, 16)
	if !ok {
		panic("unhx: bad hex " + s)
	}
	return big.Convert(z)
}

func unhxs(v any) []*big.Int {
	if v == nil {
		return nil
	}
	arr := v.([]any)
	r := make([]*big.Int, len(arr))
	for i, x := range arr {
		r[i] = unhx(x)
	}
	return r
}

func unhxmap(v any) map[int]*big.Int {
	if v == nil {
		return nil
	}
	arr := v.([]any)
	r := make(map[int]*big.Int, len(arr))
	for _, p := range arr {
		pp := p.([]any)
		r[int(unhx(pp[0]).Int64())] = unhx(pp[1])
	}
	return r
}

func unhb(v any) []byte {
	b, err := hex.DecodeString(v.(string))
	if err != nil {
		panic(err)
	}
	return b
}

func (o Op) str(k string) string {
	s, _ := o[k].(string)
	return s
}
func (o Op) boolean(k string) bool {
	b, _ := o[k].(bool)
	return b
}
func (o Op) int(k string) int {
	switch v := o[k].(type) {
	case json.Number:
		n, _ := v.Int64()
		return int(n)
	case float64:
		return int(v)
	case string:
		return int(unhx(v).Int64())
	case int:
		return v
	}
	return 0
}

func (o Op) line() string {
	b, err := json.Marshal(o)
	if err != nil {
		panic(err)
	}
	return string(b)
}

func showInt(x *big.Int) string {
	if x == nil {
		return "nil"
	}
	return x.Go().Text(16)
}

func bi(i int64) *big.Int { return big.NewInt(i) }
