package main

import (
	"bufio"
	"encoding/json"
	"fmt"
	"os"
	"os/exec"
	"reflect"
	"sort"
	"strconv"
	"strings"
	"sync"

	"github.com/privacybydesign/gabi"
	"github.com/privacybydesign/gabi/big"
	"github.com/privacybydesign/gabi/keyproof"
	"github.com/privacybydesign/gabi/safeprime"
	"github.com/privacybydesign/gabi/zkproof"
)

// C17: key-correctness proofs accept good keys and reject bad ones.
//
// Whole-proof ops (decl-keyproof, kp-verify, kp-alter, kp-build-verify, kp-challenge) run the real
// ValidKeyProofStructure; their verdict is checked against the by-construction label (the Lean
// side answers with the specification verdict `spec`, the composed tree is not modelled).
// Structure ops (kp-structure, kp-structure-full, kp-substructure; c17b.go) compare the wiring of the
// real structure values with the Lean model of the constructors (GabiModel/KeyProofTree.lean).
// Component ops (sf-*, ppp-*, dpp-*, aspp-*, qspp-verify, repr-*, range-verify, expstep-verify)
// run the unexported component through keyproof/verif_export_c17.go and the Lean component model.

func init() {
	generators["C17"] = genC17
	executors["decl-keyproof"] = execDeclKeyProof
	executors["kp-verify"] = execKpVerify
	executors["kp-alter"] = execKpAlter
	executors["kp-build-verify"] = execKpBuildVerify
	executors["kp-challenge"] = execKpChallenge
	executors["sf-build"] = func(o Op) string {
		p := keyproof.VerifSquareFreeBuild(unhx(o["n"]), unhx(o["phi"]), unhx(o["challenge"]), unhx(o["index"]))
		return "ok " + kpShowInts(p.Responses)
	}
	executors["sf-verify"] = func(o Op) string {
		return verdict(keyproof.VerifSquareFreeVerify(unhx(o["n"]), unhx(o["challenge"]), unhx(o["index"]),
			keyproof.SquareFreeProof{Responses: unhxs(o["responses"])}))
	}
	executors["ppp-build"] = func(o Op) string {
		p := keyproof.VerifPrimePowerProductBuild(unhx(o["p"]), unhx(o["q"]), unhx(o["challenge"]), unhx(o["index"]))
		return "ok " + kpShowInts(p.Responses)
	}
	executors["ppp-verify"] = func(o Op) string {
		return verdict(keyproof.VerifPrimePowerProductVerify(unhx(o["n"]), unhx(o["challenge"]), unhx(o["index"]),
			keyproof.PrimePowerProductProof{Responses: unhxs(o["responses"])}))
	}
	executors["dpp-build"] = func(o Op) string {
		p := keyproof.VerifDisjointPrimeProductBuild(unhx(o["p"]), unhx(o["q"]), unhx(o["challenge"]), unhx(o["index"]))
		return "ok " + kpShowInts(p.Responses)
	}
	executors["dpp-verify"] = func(o Op) string {
		return verdict(keyproof.VerifDisjointPrimeProductVerify(unhx(o["n"]), unhx(o["challenge"]), unhx(o["index"]),
			keyproof.DisjointPrimeProductProof{Responses: unhxs(o["responses"])}))
	}
	executors["aspp-build"] = func(o Op) string {
		p := keyproof.VerifAlmostSafePrimeProductBuild(unhx(o["pprime"]), unhx(o["qprime"]), unhx(o["challenge"]), unhx(o["index"]),
			keyproof.VerifASPPCommit{Nonce: unhx(o["nonce"]), Commitments: unhxs(o["commitments"]), Logs: unhxs(o["logs"])})
		return "ok " + kpShowInts(p.Responses)
	}
	executors["aspp-verify"] = func(o Op) string {
		return verdict(keyproof.VerifAlmostSafePrimeProductVerify(unhx(o["n"]), unhx(o["challenge"]), unhx(o["index"]), asppOf(o)))
	}
	executors["qspp-verify"] = func(o Op) string {
		return verdict(keyproof.VerifQuasiSafePrimeProductVerify(unhx(o["n"]), unhx(o["challenge"]), keyproof.QuasiSafePrimeProductProof{
			SFproof:   keyproof.SquareFreeProof{Responses: unhxs(o["sf"])},
			PPPproof:  keyproof.PrimePowerProductProof{Responses: unhxs(o["ppp"])},
			DPPproof:  keyproof.DisjointPrimeProductProof{Responses: unhxs(o["dpp"])},
			ASPPproof: asppOf(o),
		}))
	}
	executors["repr-secrets"] = execReprSecrets
	executors["repr-proof"] = execReprProof
	executors["repr-complete"] = execReprComplete
	executors["range-verify"] = execRangeVerify
	executors["expstep-verify"] = execExpStepVerify
}

func kpShowInts(xs []*big.Int) string {
	ss := make([]string, len(xs))
	for i, x := range xs {
		ss[i] = showInt(x)
	}
	return strings.Join(ss, " ")
}

func asppOf(o Op) keyproof.AlmostSafePrimeProductProof {
	return keyproof.AlmostSafePrimeProductProof{Nonce: unhx(o["nonce"]), Commitments: unhxs(o["commitments"]), Responses: unhxs(o["responses"])}
}

// ------------------------------------------------------------------------------------------
// small number theory for the generators (independent of the code under test)
// ------------------------------------------------------------------------------------------

func mulI(a, b *big.Int) *big.Int { return new(big.Int).Mul(a, b) }
func addI(a, b *big.Int) *big.Int { return new(big.Int).Add(a, b) }
func subI(a, b *big.Int) *big.Int { return new(big.Int).Sub(a, b) }
func modI(a, b *big.Int) *big.Int { return new(big.Int).Mod(a, b) }
func expI(a, e, m *big.Int) *big.Int {
	return new(big.Int).Exp(a, e, m)
}
func gcdI(a, b *big.Int) *big.Int { return new(big.Int).GCD(nil, nil, a, b) }
func kpMod8(a *big.Int) int64       { return modI(a, bi(8)).Int64() }
func isOne(a *big.Int) bool       { return a.Cmp(bi(1)) == 0 }
func half(a *big.Int) *big.Int    { return new(big.Int).Rsh(a, 1) }

// primeWhere returns a random prime of `bits` bits satisfying cond.
func primeWhere(g *Rng, bits int, cond func(p *big.Int) bool) *big.Int {
	for {
		p := randPrime(g, bits)
		if cond == nil || cond(p) {
			return p
		}
	}
}

// primeFromFactors returns a prime of the form 2*k*prod+1 with a random cofactor k of extraBits bits.
func primeFromFactors(g *Rng, prod *big.Int, extraBits int) (*big.Int, *big.Int) {
	for {
		k := bi(1)
		if extraBits > 0 {
			k = g.exactBits(extraBits)
		}
		p := addI(mulI(bi(2), mulI(k, prod)), bi(1))
		if p.ProbablyPrime(30) {
			return p, k
		}
	}
}

type ppow struct {
	p *big.Int
	k int
}

func ppowVal(f ppow) *big.Int { return new(big.Int).Exp(f.p, bi(int64(f.k)), nil) }

func crtAll(rs, ms []*big.Int) *big.Int {
	x, m := bi(0), bi(1)
	for i := range rs {
		// x' = x + m * ((r - x) * m^-1 mod ms[i])
		inv := new(big.Int).ModInverse(m, ms[i])
		t := modI(mulI(subI(rs[i], x), inv), ms[i])
		x = addI(x, mulI(m, t))
		m = mulI(m, ms[i])
	}
	return x
}

// nthRoot: best effort x with x^e = c (mod prod f_i), knowing the factorisation. ok=false when
// c is not an e-th power (or the root lies in a part this routine does not search).
func nthRoot(c, e *big.Int, fs []ppow) (*big.Int, bool) {
	var rs, ms []*big.Int
	for _, f := range fs {
		pk := ppowVal(f)
		cm := modI(c, pk)
		if modI(cm, f.p).Sign() == 0 {
			if cm.Sign() == 0 {
				rs, ms = append(rs, bi(0)), append(ms, pk)
				continue
			}
			return nil, false
		}
		m := mulI(new(big.Int).Exp(f.p, bi(int64(f.k-1)), nil), subI(f.p, bi(1))) // group order
		m2 := new(big.Int).Set(m)
		for d := gcdI(m2, e); !isOne(d); d = gcdI(m2, e) {
			m2.Div(m2, d)
		}
		if !isOne(expI(cm, m2, pk)) {
			return nil, false
		}
		inv := new(big.Int).ModInverse(modI(e, m2), m2)
		if inv == nil {
			if isOne(m2) {
				inv = bi(0)
			} else {
				return nil, false
			}
		}
		rs, ms = append(rs, expI(cm, inv, pk)), append(ms, pk)
	}
	return crtAll(rs, ms), true
}

// sqrtAny: square root of a modulo the product of distinct odd primes (through the library's
// own ModSqrt, which property C19 covers).
func sqrtAny(a *big.Int, primes []*big.Int) (*big.Int, bool) {
	n := bi(1)
	for _, p := range primes {
		n = mulI(n, p)
	}
	return gabi.VerifModSqrt(modI(a, n), primes)
}

func hashNum(challenge, index *big.Int, i int, bits uint) *big.Int {
	return gabi.VerifGetHashNumber(challenge, index, i, bits)
}

// ------------------------------------------------------------------------------------------
// good keys
// ------------------------------------------------------------------------------------------

type goodKey struct {
	p, q, pp, qp, n *big.Int
}

func genGoodKey(bits int) goodKey {
	for {
		p := must(safeprime.Generate(bits, nil))
		q := must(safeprime.Generate(bits, nil))
		if p.Cmp(q) == 0 {
			continue
		}
		pp, qp := half(p), half(q)
		if keyproof.CanProve(pp, qp) {
			return goodKey{p, q, pp, qp, mulI(p, q)}
		}
	}
}

func genBases(g *Rng, n *big.Int, k int) []*big.Int {
	bs := make([]*big.Int, k)
	for i := range bs {
		for {
			x := g.below(n)
			if x.Sign() != 0 && isOne(gcdI(x, n)) {
				bs[i] = modI(mulI(x, x), n)
				break
			}
		}
	}
	return bs
}

// ------------------------------------------------------------------------------------------
// reflection over the proof tree
// ------------------------------------------------------------------------------------------

var bigPtrT = reflect.TypeOf((*big.Int)(nil))

// walkProof visits every *big.Int leaf (leaf=true) and every slice/map container (leaf=false).
// path steps: "Field", "#index", "@mapkey".
func walkProof(v reflect.Value, path []string, f func(path []string, v reflect.Value, leaf bool)) {
	if v.Type() == bigPtrT {
		f(path, v, true)
		return
	}
	switch v.Kind() {
	case reflect.Struct:
		for i := 0; i < v.NumField(); i++ {
			if v.Type().Field(i).IsExported() {
				walkProof(v.Field(i), append(path, v.Type().Field(i).Name), f)
			}
		}
	case reflect.Slice:
		f(path, v, false)
		for i := 0; i < v.Len(); i++ {
			walkProof(v.Index(i), append(path, "#"+strconv.Itoa(i)), f)
		}
	case reflect.Map:
		f(path, v, false)
		keys := v.MapKeys()
		sort.Slice(keys, func(i, j int) bool { return keys[i].String() < keys[j].String() })
		for _, k := range keys {
			walkProof(v.MapIndex(k), append(path, "@"+k.String()), f)
		}
	}
}

// kindOfPath: the path with indices removed and the code-identical branches folded
// (P/Q prime proofs, a/aneg exponentiation proofs).
func kindOfPath(path []string) string {
	out := make([]string, 0, len(path))
	for _, s := range path {
		switch {
		case strings.HasPrefix(s, "#"):
			out = append(out, "[]")
		case strings.HasPrefix(s, "@"):
			if strings.HasSuffix(s, "hider") {
				out = append(out, "{hider}")
			} else {
				out = append(out, "{value}")
			}
		case s == "PprimeIsPrimeProof" || s == "QprimeIsPrimeProof":
			out = append(out, "XprimeIsPrimeProof")
		case s == "AExpProof" || s == "AnegExpProof":
			out = append(out, "XExpProof")
		default:
			out = append(out, s)
		}
	}
	return strings.Join(out, ".")
}

func deepCopy(v reflect.Value) reflect.Value {
	if v.Type() == bigPtrT {
		if v.IsNil() {
			return v
		}
		return reflect.ValueOf(new(big.Int).Set(v.Interface().(*big.Int)))
	}
	switch v.Kind() {
	case reflect.Struct:
		r := reflect.New(v.Type()).Elem()
		for i := 0; i < v.NumField(); i++ {
			if v.Type().Field(i).IsExported() {
				r.Field(i).Set(deepCopy(v.Field(i)))
			}
		}
		return r
	case reflect.Slice:
		if v.IsNil() {
			return v
		}
		r := reflect.MakeSlice(v.Type(), v.Len(), v.Len())
		for i := 0; i < v.Len(); i++ {
			r.Index(i).Set(deepCopy(v.Index(i)))
		}
		return r
	case reflect.Map:
		if v.IsNil() {
			return v
		}
		r := reflect.MakeMapWithSize(v.Type(), v.Len())
		for _, k := range v.MapKeys() {
			r.SetMapIndex(k, deepCopy(v.MapIndex(k)))
		}
		return r
	}
	return v
}

func copyProof(p *keyproof.ValidKeyProof) *keyproof.ValidKeyProof {
	r := deepCopy(reflect.ValueOf(*p)).Interface().(keyproof.ValidKeyProof)
	return &r
}

// navigate returns the parent value and the last step of a path inside the proof.
func navigate(root reflect.Value, path []string) (reflect.Value, string) {
	cur := root
	for _, s := range path[:len(path)-1] {
		cur = stepInto(cur, s)
	}
	return cur, path[len(path)-1]
}

func stepInto(cur reflect.Value, s string) reflect.Value {
	switch {
	case strings.HasPrefix(s, "#"):
		i, _ := strconv.Atoi(s[1:])
		return cur.Index(i)
	case strings.HasPrefix(s, "@"):
		return cur.MapIndex(reflect.ValueOf(s[1:]))
	default:
		return cur.FieldByName(s)
	}
}

func kpGetAt(root reflect.Value, path []string) reflect.Value {
	parent, last := navigate(root, path)
	return stepInto(parent, last)
}

func kpSetAt(root reflect.Value, path []string, val reflect.Value) {
	parent, last := navigate(root, path)
	if strings.HasPrefix(last, "@") {
		parent.SetMapIndex(reflect.ValueOf(last[1:]), val)
		return
	}
	stepInto(parent, last).Set(val)
}

func pathOf(v any) []string {
	arr, _ := v.([]any)
	r := make([]string, len(arr))
	for i, x := range arr {
		r[i], _ = x.(string)
	}
	return r
}

func pathAny(p []string) []any {
	r := make([]any, len(p))
	for i, s := range p {
		r[i] = s
	}
	return r
}

// applyAlteration changes the proof in place. Kinds on leaves: inc, zero, set, nil, swap;
// on containers: nil, drop (last element), dup (last element again), delkey.
func applyAlteration(proof *keyproof.ValidKeyProof, alt map[string]any) {
	root := reflect.ValueOf(proof).Elem()
	path := pathOf(alt["path"])
	kind, _ := alt["kind"].(string)
	cur := kpGetAt(root, path)
	switch kind {
	case "inc":
		kpSetAt(root, path, reflect.ValueOf(addI(cur.Interface().(*big.Int), bi(1))))
	case "zero":
		kpSetAt(root, path, reflect.ValueOf(bi(0)))
	case "set":
		kpSetAt(root, path, reflect.ValueOf(unhx(alt["value"])))
	case "nil":
		kpSetAt(root, path, reflect.Zero(cur.Type()))
	case "swap":
		path2 := pathOf(alt["path2"])
		other := kpGetAt(root, path2)
		a, b := cur.Interface().(*big.Int), other.Interface().(*big.Int)
		kpSetAt(root, path, reflect.ValueOf(b))
		kpSetAt(root, path2, reflect.ValueOf(a))
	case "drop":
		kpSetAt(root, path, cur.Slice(0, cur.Len()-1))
	case "dup":
		kpSetAt(root, path, reflect.Append(cur, deepCopy(cur.Index(cur.Len()-1))))
	case "delkey":
		parent, last := navigate(root, path)
		parent.SetMapIndex(reflect.ValueOf(last[1:]), reflect.Value{})
	default:
		panic("unknown alteration " + kind)
	}
}

// ------------------------------------------------------------------------------------------
// whole-proof executors
// ------------------------------------------------------------------------------------------

type kpEntry struct {
	n     *big.Int
	bases []*big.Int
	proof *keyproof.ValidKeyProof
	raw   []byte // the proof's JSON, for isolated (child process) verification
}

var kpStore = map[string]*kpEntry{}

func execDeclKeyProof(o Op) string {
	raw, err := json.Marshal(o["proof"])
	if err != nil {
		return "err"
	}
	var p keyproof.ValidKeyProof
	if err := json.Unmarshal(raw, &p); err != nil {
		return "err"
	}
	kpStore[o.str("id")] = &kpEntry{n: unhx(o["n"]), bases: unhxs(o["bases"]), proof: &p, raw: raw}
	return "ok"
}

func kpGet(o Op) *kpEntry {
	e := kpStore[o.str("id")]
	if e == nil {
		panic("undeclared key proof " + o.str("id"))
	}
	return e
}

func safeVerify(s *keyproof.ValidKeyProofStructure, p *keyproof.ValidKeyProof) (res string) {
	defer func() {
		if r := recover(); r != nil {
			res = "panic"
		}
	}()
	return verdict(s.VerifyProof(*p))
}

// kp-verify: the stored (JSON round-tripped) proof against the declared or a substituted
// modulus / base list.
func execKpVerify(o Op) string {
	e := kpGet(o)
	n, bases := e.n, e.bases
	if o["n"] != nil {
		n = unhx(o["n"])
	}
	if o["bases"] != nil {
		bases = unhxs(o["bases"])
	}
	s := keyproof.NewValidKeyProofStructure(n, bases)
	return safeVerify(&s, copyProof(e.proof))
}

// kp-alter: a batch of independent single alterations of the stored proof; each altered copy is
// verified (concurrently). Verdict "reject" iff every one is rejected; otherwise the first word is
// "accept" (some altered proof verified) or "panic", followed by the offending indices.
func execKpAlter(o Op) string {
	e := kpGet(o)
	alts, _ := o["alts"].([]any)
	res := make([]string, len(alts))
	if o.boolean("isolate") {
		return summarizeAlter(isolatedAlter(e, o.str("id"), alts))
	}
	var wg sync.WaitGroup
	nconc := 6
	if v, err := strconv.Atoi(os.Getenv("VERIF_C17_CONC")); err == nil && v > 0 {
		nconc = v
	}
	sem := make(chan struct{}, nconc)
	for i := range alts {
		wg.Add(1)
		go func(i int) {
			defer wg.Done()
			sem <- struct{}{}
			defer func() { <-sem }()
			defer func() {
				if r := recover(); r != nil {
					res[i] = "panic"
				}
			}()
			p := copyProof(e.proof)
			applyAlteration(p, alts[i].(map[string]any))
			s := keyproof.NewValidKeyProofStructure(e.n, e.bases)
			res[i] = safeVerify(&s, p)
		}(i)
	}
	wg.Wait()
	return summarizeAlter(res)
}

// isolatedAlter verifies the altered proofs one by one in a child `harness exec` process: a nil
// dereference inside one of exp.go's worker goroutines cannot be recovered and would take the
// whole harness down; here it only ends the child, and the alteration that did it is reported.
func isolatedAlter(e *kpEntry, id string, alts []any) []string {
	res := make([]string, len(alts))
	for i := range res {
		res[i] = "panic" // not reached = the child died before
	}
	next := 0
	for next < len(alts) {
		cmd := exec.Command(os.Args[0], "exec")
		stdin, err := cmd.StdinPipe()
		if err != nil {
			return res
		}
		stdout, err := cmd.StdoutPipe()
		if err != nil {
			return res
		}
		if err := cmd.Start(); err != nil {
			return res
		}
		go func(from int) {
			w := bufio.NewWriterSize(stdin, 1<<20)
			decl := Op{"op": "decl-keyproof", "id": id, "n": hx(e.n), "bases": hxs(e.bases), "proof": json.RawMessage(e.raw)}
			w.WriteString(decl.line())
			w.WriteByte('\n')
			for j := from; j < len(alts); j++ {
				w.WriteString(Op{"op": "kp-alter", "id": id, "alts": []any{alts[j]}}.line())
				w.WriteByte('\n')
			}
			w.Flush()
			stdin.Close()
		}(next)
		sc := bufio.NewScanner(stdout)
		sc.Buffer(make([]byte, 1<<16), 1<<20)
		first := true
		for sc.Scan() {
			if first { // answer to the declaration
				first = false
				continue
			}
			if next < len(alts) {
				res[next] = strings.SplitN(sc.Text(), " ", 2)[0]
				next++
			}
		}
		cmd.Wait()
		if next < len(alts) {
			next++ // the child died on this alteration: recorded as panic, continue after it
		}
	}
	return res
}

func summarizeAlter(res []string) string {
	var acc, pan []string
	for i, r := range res {
		switch r {
		case "accept":
			acc = append(acc, strconv.Itoa(i))
		case "panic":
			pan = append(pan, strconv.Itoa(i))
		}
	}
	if len(acc) == 0 && len(pan) == 0 {
		return "reject"
	}
	if len(acc) > 0 {
		return "accept accepted=" + strings.Join(acc, ",") + " panicked=" + strings.Join(pan, ",")
	}
	return "panic panicked=" + strings.Join(pan, ",")
}

// kp-build-verify: the real prover followed by the real verifier, in memory and again after a
// JSON round trip. The proof itself is random, the verdict is not.
func execKpBuildVerify(o Op) string {
	pp, qp := unhx(o["pprime"]), unhx(o["qprime"])
	if !keyproof.CanProve(pp, qp) {
		return "cannot-prove"
	}
	p, q := addI(mulI(pp, bi(2)), bi(1)), addI(mulI(qp, bi(2)), bi(1))
	s := keyproof.NewValidKeyProofStructure(mulI(p, q), unhxs(o["bases"]))
	proof := s.BuildProof(pp, qp)
	if !s.VerifyProof(proof) {
		return "reject in-memory"
	}
	raw, err := json.Marshal(proof)
	if err != nil {
		return "reject marshal"
	}
	var p2 keyproof.ValidKeyProof
	if err := json.Unmarshal(raw, &p2); err != nil {
		return "reject unmarshal"
	}
	if !s.VerifyProof(p2) {
		return "reject after-json"
	}
	return "accept"
}

// kp-challenge: the challenge of the stored (really built) proof equals the hash of the segments
// recomputed from it, in the order VerifyProof uses; prints the segment lengths.
func execKpChallenge(o Op) string {
	e := kpGet(o)
	s := keyproof.NewValidKeyProofStructure(e.n, e.bases)
	names, segs, ok := s.VerifChallengeSegments(*copyProof(e.proof))
	if !ok {
		return "nogroup"
	}
	var all []*big.Int
	lens := make([]string, len(segs))
	same := true
	for i, sg := range segs {
		all = append(all, sg...)
		lens[i] = strconv.Itoa(len(sg))
		given := unhxs(o["seg_"+names[i]])
		if len(given) != len(sg) {
			same = false
			continue
		}
		for j := range sg {
			if given[j].Cmp(sg[j]) != 0 {
				same = false
			}
		}
	}
	structLens := s.VerifSegmentLengths()
	for i, l := range structLens {
		if i >= len(segs) || l != len(segs[i]) {
			same = false
		}
	}
	eq := gabi.VerifHashCommit(all, false).Cmp(e.proof.Challenge) == 0
	return fmt.Sprintf("%v %s", eq && same, strings.Join(lens, ","))
}

// ------------------------------------------------------------------------------------------
// representation proofs, range proof, exponentiation step
// ------------------------------------------------------------------------------------------

type mapBases struct{ m map[string]*big.Int }

func (b *mapBases) Base(name string) *big.Int { return b.m[name] }
func (b *mapBases) Exp(ret *big.Int, name string, exp, P *big.Int) bool {
	base := b.m[name]
	if base == nil {
		return false
	}
	ret.Exp(base, exp, P)
	return true
}
func (b *mapBases) Names() []string {
	var r []string
	for k := range b.m {
		r = append(r, k)
	}
	sort.Strings(r)
	return r
}

type mapSecrets struct{ s, r map[string]*big.Int }

func (m *mapSecrets) Secret(name string) *big.Int     { return m.s[name] }
func (m *mapSecrets) Randomizer(name string) *big.Int { return m.r[name] }

type mapResults struct{ m map[string]*big.Int }

func (m *mapResults) ProofResult(name string) *big.Int { return m.m[name] }

func namedInts(v any) map[string]*big.Int {
	r := map[string]*big.Int{}
	arr, _ := v.([]any)
	for _, p := range arr {
		pp := p.([]any)
		r[pp[0].(string)] = unhx(pp[1])
	}
	return r
}

func namedAny(m map[string]*big.Int) []any {
	keys := make([]string, 0, len(m))
	for k := range m {
		keys = append(keys, k)
	}
	sort.Strings(keys)
	r := make([]any, 0, len(m))
	for _, k := range keys {
		r = append(r, []any{k, hx(m[k])})
	}
	return r
}

func reprStructOf(o Op) zkproof.RepresentationProofStructure {
	var s zkproof.RepresentationProofStructure
	for _, l := range o["lhs"].([]any) {
		ll := l.([]any)
		s.Lhs = append(s.Lhs, zkproof.LhsContribution{Base: ll[0].(string), Power: unhx(ll[1])})
	}
	for _, r := range o["rhs"].([]any) {
		rr := r.([]any)
		s.Rhs = append(s.Rhs, zkproof.RhsContribution{Base: rr[0].(string), Secret: rr[1].(string), Power: unhx(rr[2]).Int64()})
	}
	return s
}

func reprSetup(o Op) (zkproof.Group, zkproof.BaseMerge, bool) {
	g, ok := zkproof.BuildGroup(unhx(o["gp"]))
	if !ok {
		return g, zkproof.BaseMerge{}, false
	}
	return g, zkproof.NewBaseMerge(&g, &mapBases{namedInts(o["bases"])}), true
}

func execReprSecrets(o Op) string {
	g, bases, ok := reprSetup(o)
	if !ok {
		return "nogroup"
	}
	s := reprStructOf(o)
	l := s.CommitmentsFromSecrets(g, nil, &bases, &mapSecrets{namedInts(o["secrets"]), namedInts(o["randomizers"])})
	return "ok " + kpShowInts(l)
}

func execReprProof(o Op) string {
	g, bases, ok := reprSetup(o)
	if !ok {
		return "nogroup"
	}
	s := reprStructOf(o)
	l := s.CommitmentsFromProof(g, nil, unhx(o["challenge"]), &bases, &mapResults{namedInts(o["results"])})
	return "ok " + kpShowInts(l)
}

// repr-complete: IsTrue on the secrets, and "commitments from secrets = commitments from the
// honest responses r - c*s mod order".
func execReprComplete(o Op) string {
	g, bases, ok := reprSetup(o)
	if !ok {
		return "nogroup"
	}
	s := reprStructOf(o)
	sec := &mapSecrets{namedInts(o["secrets"]), namedInts(o["randomizers"])}
	c := unhx(o["challenge"])
	res := map[string]*big.Int{}
	for name, sv := range sec.s {
		res[name] = modI(subI(sec.r[name], mulI(sv, c)), g.Order)
	}
	l1 := s.CommitmentsFromSecrets(g, nil, &bases, sec)
	l2 := s.CommitmentsFromProof(g, nil, c, &bases, &mapResults{res})
	return fmt.Sprintf("%v %v", s.IsTrue(g, &bases, sec), l1[0].Cmp(l2[0]) == 0)
}

func rangeProofOf(o Op) keyproof.RangeProof {
	if o["results"] == nil {
		return keyproof.RangeProof{}
	}
	pr := keyproof.RangeProof{Results: map[string][]*big.Int{}}
	for _, p := range o["results"].([]any) {
		pp := p.([]any)
		pr.Results[pp[0].(string)] = unhxs(pp[1])
	}
	return pr
}

func rangeResultsAny(pr keyproof.RangeProof) []any {
	keys := make([]string, 0, len(pr.Results))
	for k := range pr.Results {
		keys = append(keys, k)
	}
	sort.Strings(keys)
	r := make([]any, 0, len(keys))
	for _, k := range keys {
		r = append(r, []any{k, hxs(pr.Results[k])})
	}
	return r
}

// range-verify: structure check, recomputation of the commitments, challenge = hash(commit, commitments).
func execRangeVerify(o Op) string {
	r, ok := keyproof.VerifNewRange(unhx(o["gp"]), uint(o.int("l1")), uint(o.int("l2")))
	if !ok {
		return "nogroup"
	}
	commit, ch := unhx(o["commit"]), unhx(o["challenge"])
	l, sok := r.Commitments(commit, ch, rangeProofOf(o))
	if !sok {
		return "reject structure"
	}
	return verdict(gabi.VerifHashCommit(append([]*big.Int{commit}, l...), false).Cmp(ch) == 0)
}

func pedProofOf(v any) keyproof.PedersenProof {
	m := v.(map[string]any)
	return keyproof.PedersenProof{Commit: unhx(m["commit"]), Sresult: keyproof.Proof{Result: unhx(m["s"])}, Hresult: keyproof.Proof{Result: unhx(m["h"])}}
}

func pedProofAny(p keyproof.PedersenProof) map[string]any {
	return map[string]any{"commit": hx(p.Commit), "s": hx(p.Sresult.Result), "h": hx(p.Hresult.Result)}
}

func stepProofOf(o Op) keyproof.ExpStepProof {
	var p keyproof.ExpStepProof
	p.Achallenge, p.Bchallenge = unhx(o["achallenge"]), unhx(o["bchallenge"])
	p.Aproof.Bit.Result, p.Aproof.EqualityHider.Result = unhx(o["a_bit"]), unhx(o["a_eq"])
	p.Bproof.Bit.Result = unhx(o["b_bit"])
	p.Bproof.Mul = pedProofOf(o["b_mul"])
	p.Bproof.MultiplicationProof.ModMultProof = pedProofOf(o["b_modmult"])
	p.Bproof.MultiplicationProof.Hider.Result = unhx(o["b_hider"])
	p.Bproof.MultiplicationProof.RangeProof = rangeProofOf(Op{"results": o["b_range"]})
	return p
}

func stepProofInto(o Op, p keyproof.ExpStepProof) {
	o["achallenge"], o["bchallenge"] = hx(p.Achallenge), hx(p.Bchallenge)
	o["a_bit"], o["a_eq"] = hx(p.Aproof.Bit.Result), hx(p.Aproof.EqualityHider.Result)
	o["b_bit"] = hx(p.Bproof.Bit.Result)
	o["b_mul"] = pedProofAny(p.Bproof.Mul)
	o["b_modmult"] = pedProofAny(p.Bproof.MultiplicationProof.ModMultProof)
	o["b_hider"] = hx(p.Bproof.MultiplicationProof.Hider.Result)
	o["b_range"] = rangeResultsAny(p.Bproof.MultiplicationProof.RangeProof)
}

// expstep-verify: structure check (with the XOR relation), recomputation of the hash input,
// challenge = hash(five commitments, step commitments).
func execExpStepVerify(o Op) string {
	e, ok := keyproof.VerifNewExpStep(unhx(o["gp"]), uint(o.int("bitlen")))
	if !ok {
		return "nogroup"
	}
	ch := unhx(o["challenge"])
	l, sok := e.Recompute(unhxs(o["commits"]), ch, stepProofOf(o))
	if !sok {
		return "reject structure"
	}
	return verdict(gabi.VerifHashCommit(l, false).Cmp(ch) == 0)
}

// ------------------------------------------------------------------------------------------
// best-effort cheating provers that know the factorisation
// ------------------------------------------------------------------------------------------

func modulusOf(fs []ppow) *big.Int {
	n := bi(1)
	for _, f := range fs {
		n = mulI(n, ppowVal(f))
	}
	return n
}

// sqrtMod: a square root of a modulo prod p_i^k_i (odd primes), by Tonelli-Shanks (library
// PrimeSqrt) and Hensel lifting; ok=false if none is found.
func sqrtMod(a *big.Int, fs []ppow) (*big.Int, bool) {
	var rs, ms []*big.Int
	for _, f := range fs {
		pk := ppowVal(f)
		am := modI(a, pk)
		if am.Sign() == 0 {
			rs, ms = append(rs, bi(0)), append(ms, pk)
			continue
		}
		if modI(am, f.p).Sign() == 0 {
			return nil, false
		}
		r, ok := gabi.VerifPrimeSqrt(modI(am, f.p), new(big.Int).Set(f.p))
		if !ok {
			return nil, false
		}
		cur := new(big.Int).Set(f.p)
		for j := 1; j < f.k; j++ {
			cur = mulI(cur, f.p)
			inv := new(big.Int).ModInverse(modI(mulI(bi(2), r), cur), cur)
			r = modI(subI(r, mulI(subI(mulI(r, r), am), inv)), cur)
		}
		rs, ms = append(rs, r), append(ms, pk)
	}
	return crtAll(rs, ms), true
}

func roundChallenge(ch, idx *big.Int, i int, n *big.Int) *big.Int {
	return modI(hashNum(ch, idx, i, uint(n.BitLen())), n)
}

func sfCheat(g *Rng, fs []ppow, ch, idx *big.Int) []*big.Int {
	n := modulusOf(fs)
	rs := make([]*big.Int, 8)
	for i := range rs {
		r, ok := nthRoot(roundChallenge(ch, idx, i, n), n, fs)
		if !ok {
			r = g.below(n)
		}
		rs[i] = r
	}
	return rs
}

func pppCheat(g *Rng, fs []ppow, ch, idx *big.Int) []*big.Int {
	n := modulusOf(fs)
	rs := make([]*big.Int, 80)
	for i := range rs {
		c := roundChallenge(ch, idx, i, n)
		rs[i] = g.below(n)
		for _, m := range []int64{1, -1, 2, -2} {
			if r, ok := sqrtMod(modI(mulI(bi(m), c), n), fs); ok {
				rs[i] = r
				break
			}
		}
	}
	return rs
}

func oddPart(x *big.Int) *big.Int {
	o := new(big.Int).Set(x)
	for o.Sign() != 0 && o.Bit(0) == 0 {
		o.Rsh(o, 1)
	}
	return o
}

func dppCheat(g *Rng, fs []ppow, ch, idx *big.Int) []*big.Int {
	n := modulusOf(fs)
	e := oddPart(subI(n, bi(1)))
	rs := make([]*big.Int, 8)
	for i := range rs {
		r, ok := nthRoot(roundChallenge(ch, idx, i, n), e, fs)
		if !ok {
			r = g.below(n)
		}
		rs[i] = r
	}
	return rs
}

// asppCheat: commitments base_i^log_i, then for each round a square root of +-e, +-e/2 modulo the
// odd part of phi(N) (factorisation oddFs) when one exists. The commitments are fixed before the
// challenge is known (commitFn is called first by the generator).
type asppCheater struct {
	n, phi, odd *big.Int
	oddFs       []ppow
	nonce       *big.Int
	coms, logs  []*big.Int
}

func newAsppCheater(g *Rng, n, phi *big.Int, oddFs []ppow) *asppCheater {
	c := &asppCheater{n: n, phi: phi, odd: modulusOf(oddFs), oddFs: oddFs, nonce: g.bits(256)}
	for i := 0; i < 250; i++ {
		base := modI(hashNum(c.nonce, nil, i, uint(n.BitLen())), n)
		lg := g.below(phi)
		c.logs = append(c.logs, lg)
		c.coms = append(c.coms, expI(base, lg, n))
	}
	return c
}

func (c *asppCheater) respond(g *Rng, ch, idx *big.Int) []*big.Int {
	rs := make([]*big.Int, 250)
	inv2 := new(big.Int).ModInverse(bi(2), c.odd)
	for i := range rs {
		x := hashNum(ch, idx, i, uint(2*c.n.BitLen()))
		e := modI(addI(c.logs[i], x), c.phi)
		x1 := modI(e, c.odd)
		x3 := modI(mulI(inv2, x1), c.odd)
		rs[i] = g.below(c.odd)
		for _, cand := range []*big.Int{x1, subI(c.odd, x1), x3, subI(c.odd, x3)} {
			if r, ok := sqrtMod(cand, c.oddFs); ok {
				rs[i] = r
				break
			}
		}
	}
	return rs
}

// ------------------------------------------------------------------------------------------
// generator
// ------------------------------------------------------------------------------------------

func genC17(g *Rng, tier string, emit func(Op)) {
	thorough := tier == "thorough"
	genC17Components(g, thorough, emit)
	genC17Repr(g, thorough, emit)
	genC17Range(g, thorough, emit)
	genC17ExpStep(g, thorough, emit)
	genC17Tree(g, thorough, emit)     // c17b.go: the wiring of the composed proof tree
	genC17GroupExp(g, thorough, emit) // c17c.go: Exp helpers leave their arguments alone
	if os.Getenv("VERIF_C17_SKIP_WHOLE") == "" {
		genC17Whole(g, thorough, emit)
	}
}

func withInc(xs []*big.Int, i int) []*big.Int {
	r := append([]*big.Int{}, xs...)
	r[i] = addI(r[i], bi(1))
	return r
}

func withNil(xs []*big.Int, i int) []*big.Int {
	r := append([]*big.Int{}, xs...)
	r[i] = nil
	return r
}

func asppOp(op, class, label string, n, ch, idx, nonce *big.Int, coms, resp []*big.Int) Op {
	o := Op{"op": op, "class": class, "n": hx(n), "challenge": hx(ch), "index": hx(idx), "nonce": hx(nonce),
		"commitments": hxs(coms), "responses": hxs(resp)}
	if label != "" {
		o["label"] = label
	}
	return o
}

func compOp(op, class, label string, n, ch, idx *big.Int, resp []*big.Int) Op {
	o := Op{"op": op, "class": class, "n": hx(n), "challenge": hx(ch), "index": hx(idx), "responses": hxs(resp)}
	if label != "" {
		o["label"] = label
	}
	return o
}

// a prime > 1024 (the minimum factor the composed verifier enforces; the per-round error of the
// component proofs is 1/p, so "reject" labels need p > 1024)
func bigEnough(p *big.Int) bool { return p.Cmp(bi(1024)) > 0 }

func genC17Components(g *Rng, thorough bool, emit func(Op)) {
	nGood, nBad := 10, 6
	if thorough {
		nGood, nBad = 80, 40
	}
	sizes := []int{12, 13, 16, 20, 24, 32, 40, 48, 64, 96, 128}
	// ---- honest provers on good keys: every component accepts; single alterations are rejected
	goodOne := func() {
		// at toy sizes a round challenge can share a factor with N, on which the real provers
		// panic ("Generated number not in Z_N"): such keys are skipped
		var pending []Op
		emitOuter := emit
		emit := func(o Op) { pending = append(pending, o) }
		defer func() {
			if r := recover(); r == nil {
				for _, o := range pending {
					emitOuter(o)
				}
			}
		}()
		bits := sizes[g.intn(len(sizes))]
		key := genGoodKey(bits)
		if !bigEnough(key.p) || !bigEnough(key.q) {
			return
		}
		// single alterations are labelled only where an accidental second valid response is
		// out of the question (N >= 2^40)
		rej := "reject"
		if bits < 20 {
			rej = ""
		}
		n, phi := key.n, mulI(subI(key.p, bi(1)), subI(key.q, bi(1)))
		ch := g.bits(256)
		cls := fmt.Sprintf("good-%d", bits)
		emit(Op{"op": "sf-build", "class": cls, "n": hx(n), "phi": hx(phi), "challenge": hx(ch), "index": hxi(0)})
		sf := keyproof.VerifSquareFreeBuild(n, phi, ch, bi(0))
		emit(compOp("sf-verify", cls, "accept", n, ch, bi(0), sf.Responses))
		emit(compOp("sf-verify", "good-altered", rej, n, ch, bi(0), withInc(sf.Responses, g.intn(8))))
		emit(compOp("sf-verify", "good-otherchallenge", "reject", n, addI(ch, bi(1)), bi(0), sf.Responses))
		emit(compOp("sf-verify", "good-otherindex", "reject", n, ch, bi(1), sf.Responses))
		emit(compOp("sf-verify", "structure-nil", "reject", n, ch, bi(0), withNil(sf.Responses, g.intn(8))))
		emit(compOp("sf-verify", "structure-short", "reject", n, ch, bi(0), sf.Responses[:7]))
		emit(compOp("sf-verify", "structure-long", "reject", n, ch, bi(0), append(append([]*big.Int{}, sf.Responses...), bi(1))))

		emit(Op{"op": "ppp-build", "class": cls, "p": hx(key.p), "q": hx(key.q), "challenge": hx(ch), "index": hxi(1)})
		ppp := keyproof.VerifPrimePowerProductBuild(key.p, key.q, ch, bi(1))
		emit(compOp("ppp-verify", cls, "accept", n, ch, bi(1), ppp.Responses))
		emit(compOp("ppp-verify", "good-altered", rej, n, ch, bi(1), withInc(ppp.Responses, g.intn(80))))
		emit(compOp("ppp-verify", "structure-nil", "reject", n, ch, bi(1), withNil(ppp.Responses, g.intn(80))))
		emit(compOp("ppp-verify", "structure-short", "reject", n, ch, bi(1), ppp.Responses[:79]))
		// the other root is an equally valid response
		negated := append([]*big.Int{}, ppp.Responses...)
		j := g.intn(80)
		negated[j] = subI(n, negated[j])
		emit(compOp("ppp-verify", "good-otherroot", "accept", n, ch, bi(1), negated))

		emit(Op{"op": "dpp-build", "class": cls, "p": hx(key.p), "q": hx(key.q), "challenge": hx(ch), "index": hxi(2)})
		dpp := keyproof.VerifDisjointPrimeProductBuild(key.p, key.q, ch, bi(2))
		emit(compOp("dpp-verify", cls, "accept", n, ch, bi(2), dpp.Responses))
		emit(compOp("dpp-verify", "good-altered", rej, n, ch, bi(2), withInc(dpp.Responses, g.intn(8))))
		emit(compOp("dpp-verify", "structure-nil", "reject", n, ch, bi(2), withNil(dpp.Responses, g.intn(8))))
		emit(compOp("dpp-verify", "structure-short", "reject", n, ch, bi(2), dpp.Responses[:7]))

		_, ac := keyproof.VerifAlmostSafePrimeProductCommit(key.pp, key.qp)
		emit(Op{"op": "aspp-build", "class": cls, "pprime": hx(key.pp), "qprime": hx(key.qp), "challenge": hx(ch), "index": hxi(3),
			"nonce": hx(ac.Nonce), "commitments": hxs(ac.Commitments), "logs": hxs(ac.Logs)})
		aspp := keyproof.VerifAlmostSafePrimeProductBuild(key.pp, key.qp, ch, bi(3), ac)
		emit(asppOp("aspp-verify", cls, "accept", n, ch, bi(3), aspp.Nonce, aspp.Commitments, aspp.Responses))
		emit(asppOp("aspp-verify", "good-altered-response", rej, n, ch, bi(3), aspp.Nonce, aspp.Commitments, withInc(aspp.Responses, g.intn(250))))
		emit(asppOp("aspp-verify", "good-altered-commitment", rej, n, ch, bi(3), aspp.Nonce, withInc(aspp.Commitments, g.intn(250)), aspp.Responses))
		emit(asppOp("aspp-verify", "good-altered-nonce", "reject", n, ch, bi(3), addI(aspp.Nonce, bi(1)), aspp.Commitments, aspp.Responses))
		emit(asppOp("aspp-verify", "structure-nil", "reject", n, ch, bi(3), nil, aspp.Commitments, aspp.Responses))
		emit(asppOp("aspp-verify", "structure-nil", "reject", n, ch, bi(3), aspp.Nonce, withNil(aspp.Commitments, g.intn(250)), aspp.Responses))
		emit(asppOp("aspp-verify", "structure-short", "reject", n, ch, bi(3), aspp.Nonce, aspp.Commitments, aspp.Responses[:249]))

		q := Op{"op": "qspp-verify", "class": cls, "label": "accept", "n": hx(n), "challenge": hx(ch), "sf": hxs(sf.Responses), "ppp": hxs(ppp.Responses),
			"dpp": hxs(dpp.Responses), "nonce": hx(aspp.Nonce), "commitments": hxs(aspp.Commitments), "responses": hxs(aspp.Responses)}
		emit(q)
		// a different modulus with the same proof
		q2 := Op{}
		for kk, v := range q {
			q2[kk] = v
		}
		q2["n"], q2["class"], q2["label"] = hx(addI(n, bi(8))), "good-othermodulus", "reject"
		emit(q2)
	}
	for k := 0; k < nGood; k++ {
		goodOne()
	}

	// ---- bad moduli, best-effort cheating provers
	for k := 0; k < nBad; k++ {
		ch := g.bits(256)
		bits := 14 + g.intn(30)
		pb := func() *big.Int { return primeWhere(g, bits, nil) }
		distinct := func(ps ...*big.Int) bool {
			for i := range ps {
				for j := i + 1; j < len(ps); j++ {
					if ps[i].Cmp(ps[j]) == 0 {
						return false
					}
				}
			}
			return true
		}
		// not square-free: p^2 q, p^3, p^2 q^2  (square-free proof must reject)
		{
			p, q := pb(), pb()
			if distinct(p, q) {
				for _, fs := range [][]ppow{{{p, 2}, {q, 1}}, {{p, 3}}, {{p, 2}, {q, 2}}, {{p, 2}}} {
					n := modulusOf(fs)
					emit(compOp("sf-verify", "bad-notsquarefree", "reject", n, ch, bi(0), sfCheat(g, fs, ch, bi(0))))
				}
				// square-free with three factors: not this component's business (when gcd(N,phi)=1 the
				// honest prover succeeds)
				r := pb()
				if distinct(p, q, r) {
					n3 := mulI(mulI(p, q), r)
					phi3 := mulI(mulI(subI(p, bi(1)), subI(q, bi(1))), subI(r, bi(1)))
					if isOne(gcdI(n3, phi3)) {
						emit(compOp("sf-verify", "threefactor-squarefree", "accept", n3, ch, bi(0), keyproof.VerifSquareFreeBuild(n3, phi3, ch, bi(0)).Responses))
					}
				}
			}
		}
		// third factor: p q r, p q r s (prime-power-product proof must reject)
		{
			p, q, r, s := pb(), pb(), pb(), pb()
			if distinct(p, q, r, s) {
				for _, fs := range [][]ppow{{{p, 1}, {q, 1}, {r, 1}}, {{p, 1}, {q, 1}, {r, 1}, {s, 1}}, {{p, 2}, {q, 1}, {r, 1}}} {
					emit(compOp("ppp-verify", "bad-thirdfactor", "reject", modulusOf(fs), ch, bi(1), pppCheat(g, fs, ch, bi(1))))
				}
			}
			// prime powers with suitable residues pass this component (by design; not labelled)
			p3 := primeWhere(g, bits, func(x *big.Int) bool { return kpMod8(x) == 3 })
			p7 := primeWhere(g, bits, func(x *big.Int) bool { return kpMod8(x) == 7 })
			fs := []ppow{{p3, 1 + g.intn(3)}, {p7, 1 + g.intn(2)}}
			emit(compOp("ppp-verify", "primepowers", "", modulusOf(fs), ch, bi(1), pppCheat(g, fs, ch, bi(1))))
			// two primes with equal residues mod 8: half of the challenges have no admissible root
			pa := primeWhere(g, bits, func(x *big.Int) bool { return kpMod8(x) == 3 })
			if distinct(pa, p3) {
				fs2 := []ppow{{p3, 1}, {pa, 1}}
				emit(compOp("ppp-verify", "equal-residues", "", modulusOf(fs2), ch, bi(1), pppCheat(g, fs2, ch, bi(1))))
			}
		}
		// disjoint-prime-product: N prime; N = p q with a common odd prime s > 1024 in p-1 and q-1
		{
			p := pb()
			emit(compOp("dpp-verify", "bad-prime", "reject", p, ch, bi(2), dppCheat(g, []ppow{{p, 1}}, ch, bi(2))))
			s := primeWhere(g, 11+g.intn(10), bigEnough)
			p1, _ := primeFromFactors(g, s, 8+g.intn(12))
			q1, _ := primeFromFactors(g, s, 8+g.intn(12))
			if distinct(p1, q1) {
				fs := []ppow{{p1, 1}, {q1, 1}}
				emit(compOp("dpp-verify", "bad-commonfactor", "reject", modulusOf(fs), ch, bi(2), dppCheat(g, fs, ch, bi(2))))
			}
		}
		// factors that are not almost safe primes: p = 2ab+1, q = 2c+1
		for {
			a := primeWhere(g, 8+g.intn(10), nil)
			b := primeWhere(g, 8+g.intn(10), nil)
			c := primeWhere(g, 14+g.intn(16), nil)
			p := addI(mulI(bi(2), mulI(a, b)), bi(1))
			q := addI(mulI(bi(2), c), bi(1))
			if !(distinct(a, b, c) && p.ProbablyPrime(30) && q.ProbablyPrime(30) && distinct(p, q)) {
				continue
			}
			n := mulI(p, q)
			phi := mulI(subI(p, bi(1)), subI(q, bi(1)))
			cheater := newAsppCheater(g, n, phi, []ppow{{a, 1}, {b, 1}, {c, 1}})
			class := "bad-notalmostsafe"
			if modI(n, bi(3)).Int64() != 1 {
				class = "bad-notalmostsafe-mod3"
			}
			emit(asppOp("aspp-verify", class, "reject", n, ch, bi(3), cheater.nonce, cheater.coms, cheater.respond(g, ch, bi(3))))
			break
		}
		// the composed quasi-safe-prime-product verifier on forbidden shapes
		{
			p, q := pb(), pb()
			if !distinct(p, q) {
				continue
			}
			shapes := [][]ppow{{{p, 2}, {q, 1}}, {{p, 1}, {q, 1}, {pb(), 1}}}
			for _, fs := range shapes {
				n := modulusOf(fs)
				phi := bi(1)
				var oddFs []ppow
				for _, f := range fs {
					phi = mulI(phi, mulI(new(big.Int).Exp(f.p, bi(int64(f.k-1)), nil), subI(f.p, bi(1))))
				}
				// odd part of phi is not factored here: responses for the last component are random
				_ = oddFs
				nonce := g.bits(256)
				coms, resp := make([]*big.Int, 250), make([]*big.Int, 250)
				for i := range coms {
					coms[i], resp[i] = g.below(n), g.below(n)
				}
				emit(Op{"op": "qspp-verify", "class": "bad-shape", "label": "reject", "n": hx(n), "challenge": hx(ch),
					"sf": hxs(sfCheat(g, fs, ch, bi(0))), "ppp": hxs(pppCheat(g, fs, ch, bi(1))), "dpp": hxs(dppCheat(g, fs, ch, bi(2))),
					"nonce": hx(nonce), "commitments": hxs(coms), "responses": hxs(resp)})
			}
		}
	}

	// ---- shapes only the two arithmetic checks of quasiSafePrimeProductVerifyProof exclude
	smallSafe := []int64{1019, 983, 887, 863, 839, 719, 587, 503, 479} // (p-1)/2 mod 8 != 1
	nSmall := 3
	if thorough {
		nSmall = 20
	}
	for k, tries := 0, 0; k < nSmall && tries < 50*nSmall; tries++ {
		p := bi(smallSafe[g.intn(len(smallSafe))])
		var q *big.Int
		for j := 0; j < 200; j++ {
			q = must(safeprime.Generate(20+g.intn(30), nil))
			if keyproof.CanProve(half(p), half(q)) {
				break
			}
			q = nil
		}
		if q == nil {
			continue
		}
		ch := g.bits(256)
		n, phi := mulI(p, q), mulI(subI(p, bi(1)), subI(q, bi(1)))
		// honest provers succeed on this N (when no round challenge shares a factor with N); only
		// the minimum-factor rule stands in the way
		op, ok := honestQspp(n, phi, p, q, ch)
		if !ok {
			continue
		}
		op["class"], op["label"], op["key"] = "bad-smallfactor", "reject", "qspp-small-factor"
		emit(op)
		k++
	}

	// ---- N = (4a+1)(2b+1): one factor is not an (almost) safe prime, but its defect is a power of
	// two, to which the almost-safe-prime-product proof is blind (gamma = 2^bitlen(N) kills the 2-part
	// of every order). All four component proofs can be satisfied; only N = 5 (mod 8) excludes it.
	nQuasi := 2
	if thorough {
		nQuasi = 12
	}
	for k, tries := 0, 0; k < nQuasi && tries < 400*nQuasi; tries++ {
		bits := 12 + g.intn(20)
		a := primeWhere(g, bits, func(x *big.Int) bool { return kpMod8(x) != 1 && x.Bit(0) == 1 })
		b := primeWhere(g, bits+1, func(x *big.Int) bool { return kpMod8(x) != 1 && kpMod8(x) != kpMod8(a) && x.Bit(0) == 1 })
		p := addI(mulI(bi(4), a), bi(1))
		q := addI(mulI(bi(2), b), bi(1))
		if !p.ProbablyPrime(30) || !q.ProbablyPrime(30) || !bigEnough(p) || !bigEnough(q) {
			continue
		}
		n := mulI(p, q)
		phi := mulI(subI(p, bi(1)), subI(q, bi(1)))
		if modI(n, bi(3)).Int64() != 1 || !isOne(gcdI(n, phi)) || kpMod8(n) == 5 {
			continue
		}
		ch := g.bits(256)
		op, ok := func() (op Op, ok bool) {
			defer func() {
				if r := recover(); r != nil {
					ok = false
				}
			}()
			cheater := newAsppCheater(g, n, phi, []ppow{{a, 1}, {b, 1}})
			return Op{"op": "qspp-verify", "n": hx(n), "challenge": hx(ch),
				"sf":    hxs(keyproof.VerifSquareFreeBuild(n, phi, ch, bi(0)).Responses),
				"ppp":   hxs(keyproof.VerifPrimePowerProductBuild(p, q, ch, bi(1)).Responses),
				"dpp":   hxs(keyproof.VerifDisjointPrimeProductBuild(p, q, ch, bi(2)).Responses),
				"nonce": hx(cheater.nonce), "commitments": hxs(cheater.coms), "responses": hxs(cheater.respond(g, ch, bi(3)))}, true
		}()
		if !ok {
			continue
		}
		op["class"], op["label"], op["key"] = "bad-kpMod8-quasi", "reject", "qspp-kpMod8"
		emit(op)
		k++
	}
}

// honestQspp runs the four real provers; ok=false if one of them panics (a round challenge not
// coprime to N, possible at toy sizes).
func honestQspp(n, phi, p, q, ch *big.Int) (op Op, ok bool) {
	defer func() {
		if r := recover(); r != nil {
			ok = false
		}
	}()
	_, ac := keyproof.VerifAlmostSafePrimeProductCommit(half(p), half(q))
	aspp := keyproof.VerifAlmostSafePrimeProductBuild(half(p), half(q), ch, bi(3), ac)
	return Op{"op": "qspp-verify", "n": hx(n), "challenge": hx(ch),
		"sf":    hxs(keyproof.VerifSquareFreeBuild(n, phi, ch, bi(0)).Responses),
		"ppp":   hxs(keyproof.VerifPrimePowerProductBuild(p, q, ch, bi(1)).Responses),
		"dpp":   hxs(keyproof.VerifDisjointPrimeProductBuild(p, q, ch, bi(2)).Responses),
		"nonce": hx(aspp.Nonce), "commitments": hxs(aspp.Commitments), "responses": hxs(aspp.Responses)}, true
}

// ------------------------------------------------------------------------------------------
// representation proof interpreter
// ------------------------------------------------------------------------------------------

var groupPrimeCache = map[int]*big.Int{}

func smallGroupPrime(bits int) *big.Int {
	if p, ok := groupPrimeCache[bits]; ok {
		return p
	}
	if bits == 787 { // the library's "convenient" safe prime 2^787 - 7341
		p := subI(new(big.Int).Lsh(bi(1), 787), bi(7341))
		groupPrimeCache[bits] = p
		return p
	}
	p := must(safeprime.Generate(bits, nil))
	groupPrimeCache[bits] = p
	return p
}

func genC17Repr(g *Rng, thorough bool, emit func(Op)) {
	n := 60
	if thorough {
		n = 1500
	}
	for k := 0; k < n; k++ {
		gp := smallGroupPrime([]int{16, 40, 64, 130}[g.intn(4)])
		grp, _ := zkproof.BuildGroup(gp)
		order := grp.Order
		// extra bases: subgroup elements g^a h^b, sometimes an element outside the subgroup
		extra := map[string]*big.Int{}
		extraSecret := map[string][2]*big.Int{}
		for i := 0; i < 1+g.intn(3); i++ {
			a, b := g.below(order), g.below(order)
			v := modI(mulI(expI(grp.G, a, gp), expI(grp.H, b, gp)), gp)
			extra[fmt.Sprintf("b%d", i)] = v
			extraSecret[fmt.Sprintf("b%d", i)] = [2]*big.Int{a, b}
		}
		names := []string{"g", "h"}
		for nm := range extra {
			names = append(names, nm)
		}
		sort.Strings(names)
		// random structure
		secNames := []string{"s0", "s1", "s2"}
		var rhs []any
		secrets, rands := map[string]*big.Int{}, map[string]*big.Int{}
		for i := 0; i < 1+g.intn(3); i++ {
			sn := secNames[g.intn(len(secNames))]
			pw := int64(g.intn(7) - 3)
			rhs = append(rhs, []any{names[g.intn(len(names))], sn, hxi(pw)})
			secrets[sn], rands[sn] = g.below(order), g.below(order)
		}
		var lhs []any
		for i := 0; i < 1+g.intn(3); i++ {
			nm := names[g.intn(len(names))]
			pw := g.below(order)
			if g.intn(3) == 0 {
				pw = bi(int64(g.intn(5) - 2))
			}
			if g.intn(4) == 0 {
				pw.Neg(pw)
			}
			lhs = append(lhs, []any{nm, hx(pw)})
		}
		base := Op{"gp": hx(gp), "bases": namedAny(extra), "lhs": lhs, "rhs": rhs}
		mk := func(op, class string, more Op) Op {
			o := Op{"op": op, "class": class}
			for kk, v := range base {
				o[kk] = v
			}
			for kk, v := range more {
				o[kk] = v
			}
			return o
		}
		ch := g.bits(256)
		results := map[string]*big.Int{}
		for sn := range secrets {
			results[sn] = g.below(order)
		}
		emit(mk("repr-secrets", "random", Op{"secrets": namedAny(secrets), "randomizers": namedAny(rands)}))
		emit(mk("repr-proof", "random", Op{"challenge": hx(ch), "results": namedAny(results)}))
		// a relation that holds by construction: a fresh base "x" = product of the right-hand side
		x := bi(1)
		for _, r := range rhs {
			rr := r.([]any)
			bn, sn, pw := rr[0].(string), rr[1].(string), unhx(rr[2])
			var bv *big.Int
			switch bn {
			case "g":
				bv = grp.G
			case "h":
				bv = grp.H
			default:
				bv = extra[bn]
			}
			e := modI(mulI(pw, secrets[sn]), order)
			x = modI(mulI(x, expI(bv, e, gp)), gp)
		}
		ex2 := map[string]*big.Int{"x": x}
		for kk, v := range extra {
			ex2[kk] = v
		}
		emit(Op{"op": "repr-complete", "class": "holds", "label": "true", "gp": hx(gp), "bases": namedAny(ex2),
			"lhs": []any{[]any{"x", hxi(1)}}, "rhs": rhs, "secrets": namedAny(secrets), "randomizers": namedAny(rands), "challenge": hx(ch)})
		// the same relation with a left-hand power whose low machine word is 1 (a public value such
		// as a key's base enters as the integer it is): y^(1 + k*2^64) = x
		for _, k := range []int64{1, 2, 3} {
			pw := new(big.Int).Add(bi(1), new(big.Int).Lsh(bi(k), 64))
			inv := new(big.Int).ModInverse(modI(pw, order), order)
			if inv == nil {
				continue
			}
			exy := map[string]*big.Int{"x": expI(x, inv, gp)}
			for kk, v := range extra {
				exy[kk] = v
			}
			emit(Op{"op": "repr-complete", "class": "holds-large-left-power", "label": "true", "ref": true, "fkey": "C17/left-power-low-word", "gp": hx(gp), "bases": namedAny(exy),
				"lhs": []any{[]any{"x", hx(pw)}}, "rhs": rhs, "secrets": namedAny(secrets), "randomizers": namedAny(rands), "challenge": hx(ch)})
		}
		// and one that does not: x*g
		ex3 := map[string]*big.Int{"x": modI(mulI(x, grp.G), gp)}
		for kk, v := range extra {
			ex3[kk] = v
		}
		emit(Op{"op": "repr-complete", "class": "fails", "label": "false", "gp": hx(gp), "bases": namedAny(ex3),
			"lhs": []any{[]any{"x", hxi(1)}}, "rhs": rhs, "secrets": namedAny(secrets), "randomizers": namedAny(rands), "challenge": hx(ch)})
	}
}

// ------------------------------------------------------------------------------------------
// range proof
// ------------------------------------------------------------------------------------------

func rangeOp(class, label string, gp *big.Int, l1, l2 uint, commit, ch *big.Int, pr keyproof.RangeProof) Op {
	o := Op{"op": "range-verify", "class": class, "gp": hx(gp), "l1": int(l1), "l2": int(l2), "commit": hx(commit), "challenge": hx(ch)}
	if pr.Results != nil {
		o["results"] = rangeResultsAny(pr)
	} else {
		o["results"] = nil
	}
	if label != "" {
		o["label"] = label
	}
	return o
}

func copyRange(pr keyproof.RangeProof) keyproof.RangeProof {
	r := keyproof.RangeProof{Results: map[string][]*big.Int{}}
	for k, v := range pr.Results {
		r.Results[k] = append([]*big.Int{}, v...)
	}
	return r
}

func genC17Range(g *Rng, thorough bool, emit func(Op)) {
	n := 6
	if thorough {
		n = 100
	}
	for k := 0; k < n; k++ {
		l2 := uint(8 + g.intn(80))
		l1 := uint(0)
		if g.intn(3) == 0 {
			l1 = uint(g.intn(int(l2)))
		}
		// the group must be larger than the result bound 2^(l2+258), as in the key proof
		gp := smallGroupPrime([]int{400, 787}[g.intn(2)])
		r, _ := keyproof.VerifNewRange(gp, l1, l2)
		// honest, value inside [0, 2^l2)
		v := g.bits(int(l2))
		commit, ch, pr := r.Prove(v)
		emit(rangeOp("honest", "accept", gp, l1, l2, commit, ch, pr))
		// single alterations
		for _, key := range []string{"x", "x_hider"} {
			alt := copyRange(pr)
			i := g.intn(80)
			alt.Results[key][i] = addI(alt.Results[key][i], bi(1))
			emit(rangeOp("altered-"+key, "reject", gp, l1, l2, commit, ch, alt))
		}
		{
			alt := copyRange(pr)
			i, j := g.intn(80), g.intn(80)
			if alt.Results["x"][i].Cmp(alt.Results["x"][j]) != 0 {
				alt.Results["x"][i], alt.Results["x"][j] = alt.Results["x"][j], alt.Results["x"][i]
				emit(rangeOp("altered-swap", "reject", gp, l1, l2, commit, ch, alt))
			}
		}
		emit(rangeOp("altered-challenge", "reject", gp, l1, l2, commit, addI(ch, bi(1)), pr))
		emit(rangeOp("altered-commit", "reject", gp, l1, l2, addI(commit, bi(1)), ch, pr))
		// structure
		{
			alt := copyRange(pr)
			delete(alt.Results, "x_hider")
			emit(rangeOp("structure-missing", "reject", gp, l1, l2, commit, ch, alt))
			alt = copyRange(pr)
			alt.Results["x"] = alt.Results["x"][:79]
			emit(rangeOp("structure-short", "reject", gp, l1, l2, commit, ch, alt))
			alt = copyRange(pr)
			alt.Results["x"][g.intn(80)] = nil
			emit(rangeOp("structure-nil", "reject", gp, l1, l2, commit, ch, alt))
			emit(rangeOp("structure-nomap", "reject", gp, l1, l2, commit, ch, keyproof.RangeProof{}))
			// result at the size limit 2^(l2+258)
			alt = copyRange(pr)
			alt.Results["x"][g.intn(80)] = new(big.Int).Lsh(bi(1), l2+258)
			emit(rangeOp("structure-limit", "reject", gp, l1, l2, commit, ch, alt))
		}
		// a value far below the range: the real prover's responses exceed the size limit in every
		// round whose challenge bit is 1
		low := new(big.Int).Neg(new(big.Int).Lsh(bi(1), l2+270))
		c2, ch2, pr2 := r.Prove(low)
		emit(rangeOp("prover-value-too-small", "reject", gp, l1, l2, c2, ch2, pr2))
	}
}

// ------------------------------------------------------------------------------------------
// exponentiation step (OR-composition)
// ------------------------------------------------------------------------------------------

func stepOp(class, label string, gp *big.Int, bitlen uint, commits []*big.Int, ch *big.Int, p keyproof.ExpStepProof) Op {
	o := Op{"op": "expstep-verify", "class": class, "gp": hx(gp), "bitlen": int(bitlen), "commits": hxs(commits), "challenge": hx(ch)}
	stepProofInto(o, p)
	if label != "" {
		o["label"] = label
	}
	return o
}

func genC17ExpStep(g *Rng, thorough bool, emit func(Op)) {
	n := 4
	if thorough {
		n = 60
	}
	for k := 0; k < n; k++ {
		bitlen := uint(8 + g.intn(40))
		gp := smallGroupPrime([]int{400, 787}[g.intn(2)])
		mod := randPrime(g, int(bitlen))
		pre, mul := g.below(mod), g.below(mod)
		for _, bit := range []int64{0, 1} {
			e, _ := keyproof.VerifNewExpStep(gp, bitlen)
			post := new(big.Int).Set(pre)
			if bit == 1 {
				post = modI(mulI(pre, mul), mod)
			}
			commits := e.Commit(bi(bit), pre, post, mul, mod)
			if !e.IsTrue() {
				panic("expstep premise")
			}
			ch, proof := e.Prove()
			cls := fmt.Sprintf("branch-%d", bit)
			emit(stepOp(cls, "accept", gp, bitlen, commits, ch, proof))
			// the sub-challenges must XOR to the challenge
			alt := proof
			alt.Achallenge = addI(proof.Achallenge, bi(1))
			emit(stepOp(cls+"-achallenge+1", "reject", gp, bitlen, commits, ch, alt))
			alt = proof
			alt.Bchallenge = new(big.Int).Xor(proof.Bchallenge, new(big.Int).Lsh(bi(1), uint(g.intn(256))))
			emit(stepOp(cls+"-bchallenge-bitflip", "reject", gp, bitlen, commits, ch, alt))
			// both flipped in the same bit: the XOR relation still holds, the transcripts do not
			alt = proof
			m := new(big.Int).Lsh(bi(1), uint(g.intn(256)))
			alt.Achallenge, alt.Bchallenge = new(big.Int).Xor(proof.Achallenge, m), new(big.Int).Xor(proof.Bchallenge, m)
			emit(stepOp(cls+"-both-flipped", "reject", gp, bitlen, commits, ch, alt))
			alt = proof
			alt.Aproof.Bit.Result = addI(proof.Aproof.Bit.Result, bi(1))
			emit(stepOp(cls+"-a-altered", "reject", gp, bitlen, commits, ch, alt))
			alt = proof
			alt.Bproof.Bit.Result = addI(proof.Bproof.Bit.Result, bi(1))
			emit(stepOp(cls+"-b-altered", "reject", gp, bitlen, commits, ch, alt))
			alt = proof
			alt.Achallenge = nil
			emit(stepOp(cls+"-achallenge-nil", "reject", gp, bitlen, commits, ch, alt))
		}
		// neither branch holds (bit = 1 but post != pre*mul, and post != pre): simulate both branches
		// with independent sub-challenges; the Fiat-Shamir challenge will not be their XOR
		{
			e, _ := keyproof.VerifNewExpStep(gp, bitlen)
			post := modI(addI(mulI(pre, mul), bi(1+int64(g.intn(5)))), mod)
			if post.Cmp(pre) == 0 {
				continue
			}
			commits := e.Commit(bi(1), pre, post, mul, mod)
			if e.IsTrue() {
				continue
			}
			ch, proof := e.FakeBoth(g.bits(256), g.bits(256))
			emit(stepOp("false-statement-both-simulated", "reject", gp, bitlen, commits, ch, proof))
			// the multiplier the step is about is the commitment named "mul" in the verifier's view;
			// the prover proves the step for another multiplier mul2 of its own (post = pre*mul2) and
			// presents its proof against the verifier's commitment to mul: the statement is false
			// for the public commitments (bit = 1, post != pre*mul), the proof must not verify
			{
				mul2 := g.below(mod)
				post2 := modI(mulI(pre, mul2), mod)
				if mul2.Cmp(mul) != 0 && post2.Cmp(modI(mulI(pre, mul), mod)) != 0 && post2.Cmp(pre) != 0 {
					prover, _ := keyproof.VerifNewExpStep(gp, bitlen)
					view := prover.Commit(bi(1), pre, post2, mul2, mod)
					other, _ := keyproof.VerifNewExpStep(gp, bitlen)
					view[3] = other.Commit(bi(1), pre, post2, mul, mod)[3]
					if prover.IsTrue() && !other.IsTrue() {
						ch2, proof2 := prover.ProveFor(view)
						o := stepOp("false-statement-unlinked-mul", "reject", gp, bitlen, view, ch2, proof2)
						o["key"] = "expstep-mul-unlinked"
						emit(o)
					}
				}
			}
			// a bit that is neither 0 nor 1
			commits = e.Commit(bi(2), pre, pre, mul, mod)
			ch, proof = e.FakeBoth(g.bits(256), g.bits(256))
			emit(stepOp("false-statement-bit2", "reject", gp, bitlen, commits, ch, proof))
		}
	}
}

// ------------------------------------------------------------------------------------------
// whole key proofs
// ------------------------------------------------------------------------------------------

type leafRef struct {
	path []string
	val  *big.Int
}

func genC17Whole(g *Rng, thorough bool, emit func(Op)) {
	// valueAlts: number of value alterations (each costs one full verification, 1-3 s); every
	// leaf kind gets a structural alteration in every run, and a value alteration in every run
	// whose budget covers the number of kinds (thorough; quick samples the kinds by seed).
	type plan struct {
		bits, nbases, valueAlts int
	}
	plans := []plan{{48, 2, 40}} // two bases: dropped / swapped base lists exist in every run
	if thorough {
		plans = []plan{{48, 1 + g.intn(4), 115}, {56 + g.intn(41), 1 + g.intn(4), 35}}
	}
	if v, err := strconv.Atoi(os.Getenv("VERIF_C17_VALUE_ALTS")); err == nil && v >= 0 {
		for i := range plans {
			plans[i].valueAlts = v
		}
	}
	for pi, pl := range plans {
		key := genGoodKey(pl.bits)
		bases := genBases(g, key.n, pl.nbases)
		s := keyproof.NewValidKeyProofStructure(key.n, bases)
		proof := s.BuildProof(key.pp, key.qp)
		raw, err := json.Marshal(proof)
		if err != nil {
			panic(err)
		}
		id := fmt.Sprintf("kp%d", pi)
		cls := fmt.Sprintf("key-%d-bases-%d", pl.bits, pl.nbases)
		emit(Op{"op": "decl-keyproof", "class": "decl", "id": id, "n": hx(key.n), "bases": hxs(bases), "proof": json.RawMessage(raw)})
		emit(Op{"op": "kp-verify", "class": "honest-" + cls, "label": "accept", "spec": "accept", "id": id})
		// the structure this proof was built with and is verified with is the modelled one
		emit(kpStructureOp("structure-of-proved-"+cls, key.n, bases))
		// one structure value used for several proofs / groups (c17c.go)
		genC17Reuse(g, thorough, emit, id, cls, key, &s, &proof)

		// the Fiat-Shamir input
		names, segs, ok := s.VerifChallengeSegments(proof)
		if !ok {
			panic("group")
		}
		chop := Op{"op": "kp-challenge", "class": "fs-input-" + cls, "label": "true", "id": id, "challenge": hx(proof.Challenge),
			"nbits": key.n.BitLen(), "nbases": len(bases)}
		for i, nm := range names {
			chop["seg_"+nm] = hxs(segs[i])
		}
		emit(chop)
		// the quasi-safe-prime-product part of the real proof through the component model
		q := proof.QSPPproof
		emit(Op{"op": "qspp-verify", "class": "from-keyproof", "label": "accept", "n": hx(key.n), "challenge": hx(proof.Challenge),
			"sf": hxs(q.SFproof.Responses), "ppp": hxs(q.PPPproof.Responses), "dpp": hxs(q.DPPproof.Responses),
			"nonce": hx(q.ASPPproof.Nonce), "commitments": hxs(q.ASPPproof.Commitments), "responses": hxs(q.ASPPproof.Responses)})

		// a different modulus, a different base list
		other := genGoodKey(pl.bits)
		emit(Op{"op": "kp-verify", "class": "other-modulus", "label": "reject", "spec": "reject", "id": id, "n": hx(other.n)})
		emit(Op{"op": "kp-verify", "class": "other-modulus-plus8", "label": "reject", "spec": "reject", "id": id, "n": hx(addI(key.n, bi(8)))})
		b2 := append([]*big.Int{}, bases...)
		j := g.intn(len(b2))
		x := g.below(key.n)
		b2[j] = modI(mulI(x, x), key.n)
		if b2[j].Cmp(bases[j]) != 0 {
			emit(Op{"op": "kp-verify", "class": "other-base", "label": "reject", "spec": "reject", "id": id, "bases": hxs(b2)})
		}
		emit(Op{"op": "kp-verify", "class": "extra-base", "label": "reject", "spec": "reject", "id": id, "bases": hxs(append(append([]*big.Int{}, bases...), bi(4)))})
		if len(bases) > 1 {
			emit(Op{"op": "kp-verify", "class": "dropped-base", "label": "reject", "spec": "reject", "id": id, "bases": hxs(bases[:len(bases)-1])})
			if bases[0].Cmp(bases[1]) != 0 {
				b3 := append([]*big.Int{}, bases...)
				b3[0], b3[1] = b3[1], b3[0]
				emit(Op{"op": "kp-verify", "class": "swapped-bases", "label": "reject", "spec": "reject", "id": id, "bases": hxs(b3)})
			}
		}

		// base values that agree in their low machine word: a proof for the base list [1, ...] against
		// [1 + k*2^64, ...] (the public bases are bound as the integers they are)
		if pi == 0 {
			bl := append([]*big.Int{bi(1)}, bases[:1]...)
			s1 := keyproof.NewValidKeyProofStructure(key.n, bl)
			p1 := s1.BuildProof(key.pp, key.qp)
			raw1, err := json.Marshal(p1)
			if err != nil {
				panic(err)
			}
			id1 := id + "one"
			emit(Op{"op": "decl-keyproof", "class": "decl", "id": id1, "n": hx(key.n), "bases": hxs(bl), "proof": json.RawMessage(raw1)})
			emit(Op{"op": "kp-verify", "class": "honest-base-one", "label": "accept", "spec": "accept", "id": id1})
			for _, k := range []int64{1, 2, 3} {
				alt := append([]*big.Int{new(big.Int).Add(bi(1), new(big.Int).Lsh(bi(k), 64))}, bl[1:]...)
				emit(Op{"op": "kp-verify", "class": "other-base-same-low-word", "label": "reject", "spec": "reject", "fkey": "C17/base-same-low-word", "id": id1, "bases": hxs(alt)})
			}
			emit(Op{"op": "kp-verify", "class": "other-base-same-low-word", "label": "reject", "spec": "reject", "fkey": "C17/base-same-low-word", "id": id1,
				"bases": hxs(append([]*big.Int{new(big.Int).Add(bi(1), new(big.Int).Lsh(bi(1), 128))}, bl[1:]...))})
		}
		// leaves and containers by kind
		leaves := map[string][]leafRef{}
		containers := map[string][][]string{}
		total := 0
		walkProof(reflect.ValueOf(proof), nil, func(path []string, v reflect.Value, leaf bool) {
			p := append([]string{}, path...)
			k := kindOfPath(p)
			if leaf {
				total++
				leaves[k] = append(leaves[k], leafRef{p, v.Interface().(*big.Int)})
			} else if v.Len() > 0 {
				containers[k] = append(containers[k], p)
			}
		})
		var kinds, ckinds []string
		for k := range leaves {
			kinds = append(kinds, k)
		}
		for k := range containers {
			ckinds = append(ckinds, k)
		}
		sort.Strings(kinds)
		sort.Strings(ckinds)

		// structural alterations (rejected by the structure checks, cheap): one nil per leaf kind,
		// nil / shortened / extended / missing-key per container kind
		var batch []any
		flush := func(class string, size int, force bool) {
			if len(batch) >= size || (force && len(batch) > 0) {
				emit(Op{"op": "kp-alter", "class": class, "label": "reject", "spec": "reject", "key": "kp-alter-" + class, "id": id, "alts": batch,
					"leaves": total, "leafkinds": len(kinds), "isolate": class == "structural"})
				batch = nil
			}
		}
		for _, k := range kinds {
			l := leaves[k][g.intn(len(leaves[k]))]
			batch = append(batch, map[string]any{"path": pathAny(l.path), "kind": "nil", "leafkind": k})
			// and the first and the last leaf of the kind (the ends of the lists the structure checks
			// loop over: first / last step, first / last base, ...)
			if n := len(leaves[k]); n > 1 {
				batch = append(batch, map[string]any{"path": pathAny(leaves[k][0].path), "kind": "nil", "leafkind": k})
				batch = append(batch, map[string]any{"path": pathAny(leaves[k][n-1].path), "kind": "nil", "leafkind": k})
			}
			flush("structural", 120, false)
		}
		for _, k := range ckinds {
			c := containers[k][g.intn(len(containers[k]))]
			isMap := strings.HasSuffix(k, "Results")
			batch = append(batch, map[string]any{"path": pathAny(c), "kind": "nil", "leafkind": k})
			if !isMap {
				batch = append(batch, map[string]any{"path": pathAny(c), "kind": "drop", "leafkind": k})
				batch = append(batch, map[string]any{"path": pathAny(c), "kind": "dup", "leafkind": k})
			}
			flush("structural", 120, false)
		}
		// a missing map entry
		for _, k := range kinds {
			if strings.Contains(k, "{") {
				l := leaves[k][g.intn(len(leaves[k]))]
				batch = append(batch, map[string]any{"path": pathAny(l.path[:len(l.path)-1]), "kind": "delkey", "leafkind": k})
				flush("structural", 120, false)
			}
		}
		flush("structural", 120, true)

		// value alterations: the leaf kinds in random order (all of them when the budget allows,
		// then again), alteration type at random
		var order []string
		for len(order) < pl.valueAlts {
			for _, i := range g.perm(len(kinds)) {
				order = append(order, kinds[i])
			}
		}
		order = order[:pl.valueAlts]
		{
			for _, k := range order {
				ls := leaves[k]
				l := ls[g.intn(len(ls))]
				alt := map[string]any{"path": pathAny(l.path), "leafkind": k}
				switch c := g.intn(5); {
				case c == 0:
					alt["kind"] = "inc"
				case c == 1 && l.val.Sign() != 0:
					alt["kind"] = "zero"
				case c == 2:
					v := g.bits(max(l.val.BitLen(), 8))
					if v.Cmp(l.val) == 0 {
						v = addI(v, bi(1))
					}
					alt["kind"], alt["value"] = "set", hx(v)
				case c == 3 && len(ls) > 1:
					o := ls[g.intn(len(ls))]
					if o.val.Cmp(l.val) != 0 {
						alt["kind"], alt["path2"] = "swap", pathAny(o.path)
					} else {
						alt["kind"] = "inc"
					}
				default:
					alt["kind"] = "inc"
				}
				batch = append(batch, alt)
				flush("value", 12, false)
			}
		}
		flush("value", 12, true)
	}

	// the real prover and verifier end to end, in memory and over JSON, on fresh keys
	nb := 1
	if thorough {
		nb = 3
	}
	for i := 0; i < nb; i++ {
		bits := []int{90, 48, 64}[i%3]
		key := genGoodKey(bits)
		emit(Op{"op": "kp-build-verify", "class": fmt.Sprintf("fresh-%d", bits), "label": "accept", "pprime": hx(key.pp), "qprime": hx(key.qp),
			"bases": hxs(genBases(g, key.n, 1+g.intn(4)))})
	}
	// base lists as long as those of real issuer keys (Z, S and the R_i: eight and more)
	for _, nbases := range []int{8 + g.intn(2), 10 + g.intn(8)} {
		key := genGoodKey(48)
		emit(Op{"op": "kp-build-verify", "class": fmt.Sprintf("fresh-48-bases-%d", nbases), "label": "accept", "pprime": hx(key.pp), "qprime": hx(key.qp),
			"bases": hxs(genBases(g, key.n, nbases))})
		emit(kpStructureOp(fmt.Sprintf("structure-many-bases-%d", nbases), key.n, genBases(g, key.n, nbases)))
		if !thorough {
			break
		}
	}
}
