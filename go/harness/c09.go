package main

import (
	"encoding/json"
	"fmt"
	"strings"

	"github.com/multiformats/go-multihash"
	"github.com/privacybydesign/gabi/big"
	"github.com/privacybydesign/gabi/revocation"
)

// C09: revocation witnesses track the accumulator through any history.

type histState struct {
	kp        *KeyPair
	acc       *revocation.Accumulator
	accs      []*revocation.Accumulator
	events    []*revocation.Event
	witnesses map[string]*revocation.Witness
	updates   map[string]*revocation.Update
	chunks    map[string]*revocation.EventList // decoded single-event chunks kept by a client
}

func copySacc(s *revocation.SignedAccumulator) *revocation.SignedAccumulator {
	c := *s
	if s.Accumulator != nil {
		a := *s.Accumulator
		c.Accumulator = &a
	}
	return &c
}

func runHistoryGo(kp *KeyPair, nu0 *big.Int, time0 int64, steps []any) string {
	empty := [32]byte{}
	emptyhash, _ := multihash.Encode(empty[:], multihash.SHA2_256)
	initial := &revocation.Event{Index: 0, E: bi(1), ParentHash: revocation.Hash(emptyhash)}
	acc := &revocation.Accumulator{Index: 0, Nu: nu0, Time: time0, EventHash: initial.VerifHash()}
	h := &histState{kp: kp, acc: acc, accs: []*revocation.Accumulator{acc}, events: []*revocation.Event{initial},
		witnesses: map[string]*revocation.Witness{}, updates: map[string]*revocation.Update{}, chunks: map[string]*revocation.EventList{}}
	var out, us []string
	for _, s := range steps {
		st := Op(s.(map[string]any))
		switch st.str("t") {
		case "revoke":
			newAcc, ev, err := h.acc.Remove(kp.sk, unhx(st["e"]), h.events[len(h.events)-1])
			if err != nil {
				out = append(out, "revoke-err")
				continue
			}
			newAcc.Time = unhx(st["time"]).Int64()
			h.acc = newAcc
			h.accs = append(h.accs, newAcc)
			h.events = append(h.events, ev)
			out = append(out, "revoked-ok")
		case "witness":
			w, err := revocation.VerifNewWitness(kp.sk, h.acc, unhx(st["e"]))
			if err != nil {
				out = append(out, "witness-err")
				continue
			}
			sacc, err := h.acc.Sign(kp.sk)
			if err != nil {
				panic(err)
			}
			w.SignedAccumulator = sacc
			h.witnesses[st.str("w")] = w
			out = append(out, "witness-ok")
		case "mkupdate":
			from, to := st.int("from"), st.int("to")
			acc := h.accs[to]
			if st.boolean("badnu") {
				// issuer-signed accumulator whose value does not match its events
				bad := *acc
				bad.Nu = new(big.Int).Mul(acc.Nu, bi(4))
				bad.Nu.Mod(bad.Nu, kp.pk.N)
				acc = &bad
			}
			u, err := revocation.NewUpdate(kp.sk, acc, append([]*revocation.Event{}, h.events[from:to+1]...))
			if err != nil {
				return "mkupdate-failed " + err.Error()
			}
			if st.boolean("badevents") {
				// a genuine signed accumulator with an altered event list (one value changed)
				k := st.int("badk") % len(u.Events)
				evs := make([]*revocation.Event, len(u.Events))
				for i, e := range u.Events {
					c := *e
					evs[i] = &c
				}
				if st["badparentappend"] != nil {
					// bytes moved from the front of the value onto the end of the parent hash
					evs[k].ParentHash = append(append(revocation.Hash{}, evs[k].ParentHash...), unhb(st["badparentappend"])...)
				}
				if st["bade"] != nil {
					evs[k].E = unhx(st["bade"]) // a value of the attacker's choosing
				} else {
					evs[k].E = new(big.Int).Add(evs[k].E, bi(2))
				}
				u.Events = evs
			}
			// as received by a client: decoded accumulator not yet cached
			u.SignedAccumulator = &revocation.SignedAccumulator{Data: u.SignedAccumulator.Data, PKCounter: u.SignedAccumulator.PKCounter}
			if st.boolean("othercounter") {
				// the genuine signed bytes, announced for another key generation of the issuer
				u.SignedAccumulator.PKCounter++
			}
			h.updates[st.str("u")] = u
			out = append(out, "update-ok")
		case "redecode":
			// the client reads the next message into the update object it already has (and from
			// which witnesses have been updated before)
			from, to := st.int("from"), st.int("to")
			nu, err := revocation.NewUpdate(kp.sk, h.accs[to], append([]*revocation.Event{}, h.events[from:to+1]...))
			if err != nil {
				return "redecode-failed " + err.Error()
			}
			bts, err := json.Marshal(nu)
			if err != nil {
				panic(err)
			}
			if err := json.Unmarshal(bts, h.updates[st.str("u")]); err != nil {
				out = append(out, "redecode-err")
			} else {
				out = append(out, "redecode-ok")
			}
		case "prepend":
			// older events put in front of an update object, as a client does that fetches history in
			// chunks; the chunk arrives in memory, or in its wire form with the product of its values
			u := h.updates[st.str("u")]
			lo, hi := st.int("from"), st.int("to")
			var evs []*revocation.Event
			for _, e := range h.events[lo : hi+1] {
				evs = append(evs, &revocation.Event{Index: e.Index, E: new(big.Int).Set(e.E), ParentHash: append(revocation.Hash{}, e.ParentHash...)})
			}
			if st["tamper"] != nil && len(evs) > 0 {
				// a chunk that connects by its indices but not by its hashes (one value altered)
				k := st.int("tamper") % len(evs)
				evs[k].E = new(big.Int).Add(evs[k].E, bi(2))
			}
			list := revocation.NewEventList(evs...)
			switch st.str("wire") {
			case "json-product":
				bts, err := json.Marshal(list)
				if err != nil {
					panic(err)
				}
				list = &revocation.EventList{ComputeProduct: true}
				if err := json.Unmarshal(bts, list); err != nil {
					panic(err)
				}
			case "flatten", "flatten-reused":
				// "flatten-reused": the decoded chunk objects are kept and flattened again for the next
				// update (a client caching the chunks it downloaded)
				var parts []*revocation.EventList
				for _, e := range evs {
					key := fmt.Sprintf("%d", e.Index)
					if p, ok := h.chunks[key]; ok && st.str("wire") == "flatten-reused" && st["tamper"] == nil {
						parts = append(parts, p)
						continue
					}
					bts, err := json.Marshal(revocation.NewEventList(e))
					if err != nil {
						panic(err)
					}
					part := &revocation.EventList{ComputeProduct: true}
					if err := json.Unmarshal(bts, part); err != nil {
						panic(err)
					}
					if st["tamper"] == nil { // a chunk that was refused is not kept
						h.chunks[key] = part
					}
					parts = append(parts, part)
				}
				fl, err := revocation.FlattenEventLists(parts)
				if err != nil {
					panic(err)
				}
				list = fl
			}
			// Prepend works on a verified update (its signed accumulator decoded)
			if _, err := u.SignedAccumulator.UnmarshalVerify(kp.pk); err != nil {
				out = append(out, "prepend-sig-err")
				continue
			}
			if err := u.Prepend(list); err != nil {
				out = append(out, "prepend-err")
			} else {
				out = append(out, fmt.Sprintf("prepend-ok:%d", u.Events[0].Index))
			}
		case "corruptw":
			w := h.witnesses[st.str("w")]
			w.U = new(big.Int).Add(w.U, bi(1))
			w.U.Mod(w.U, kp.pk.N)
			out = append(out, "corrupt-ok")
		case "clonew":
			src := h.witnesses[st.str("from")]
			c := *src
			c.SignedAccumulator = copySacc(src.SignedAccumulator)
			h.witnesses[st.str("to")] = &c
			out = append(out, "clone-ok")
		case "apply":
			w, u := h.witnesses[st.str("w")], h.updates[st.str("u")]
			err := w.Update(kp.pk, u)
			res := "ok"
			if err == revocation.ErrorRevoked {
				res = "revoked"
			} else if err != nil {
				res = "err"
			}
			wacc, _ := w.SignedAccumulator.UnmarshalVerify(kp.pk)
			valid := new(big.Int).Exp(w.U, w.E, kp.pk.N).Cmp(wacc.Nu) == 0
			out = append(out, fmt.Sprintf("%s:%d:%v", res, wacc.Index, valid))
			us = append(us, showInt(w.U))
		case "verifyw":
			w := h.witnesses[st.str("w")]
			err := w.Verify(kp.pk)
			out = append(out, fmt.Sprintf("%v:%d", err == nil, w.SignedAccumulator.Accumulator.Index))
		}
	}
	return strings.Join(out, ";") + " " + strings.Join(us, ",")
}

func init() {
	generators["C09"] = genC09
	executors["acc-history"] = func(o Op) string {
		return runHistoryGo(execKey(o.str("key")), unhx(o["nu0"]), unhx(o["time0"]).Int64(), o["steps"].([]any))
	}
}

// abstract specification: what each step must report, from the revoked set and indices alone.
type specWitness struct {
	e       string
	index   int
	corrupt bool
}

type histBuilder struct {
	steps  []any
	expect []string
	es     []string // event values by index (index 0: "1")
	wit    map[string]*specWitness
	upd    map[string][2]int
	badupd map[string]bool
	badev  map[string]bool
	time   int64
}

func newHistBuilder() *histBuilder {
	return &histBuilder{es: []string{"1"}, wit: map[string]*specWitness{}, upd: map[string][2]int{}, badupd: map[string]bool{}, badev: map[string]bool{}, time: 1000}
}

func (b *histBuilder) revoke(e *big.Int) {
	b.time += 10
	b.steps = append(b.steps, map[string]any{"t": "revoke", "e": hx(e), "time": hxi(b.time)})
	b.es = append(b.es, e.Go().Text(16))
	b.expect = append(b.expect, "revoked-ok")
}
func (b *histBuilder) witness(id string, e *big.Int) {
	b.steps = append(b.steps, map[string]any{"t": "witness", "w": id, "e": hx(e)})
	b.wit[id] = &specWitness{e: e.Go().Text(16), index: len(b.es) - 1}
	b.expect = append(b.expect, "witness-ok")
}
func (b *histBuilder) mkupdate(id string, from, to int) {
	b.steps = append(b.steps, map[string]any{"t": "mkupdate", "u": id, "from": from, "to": to})
	b.upd[id] = [2]int{from, to}
	b.expect = append(b.expect, "update-ok")
}
func (b *histBuilder) mkbadupdate(id string, from, to int) {
	b.steps = append(b.steps, map[string]any{"t": "mkupdate", "u": id, "from": from, "to": to, "badnu": true})
	b.upd[id] = [2]int{from, to}
	b.badupd[id] = true
	b.expect = append(b.expect, "update-ok")
}

// prepend: events lo..hi in front of update u (generated only where it must succeed)
func (b *histBuilder) prepend(u string, lo, hi int, wire string) {
	b.steps = append(b.steps, map[string]any{"t": "prepend", "u": u, "from": lo, "to": hi, "wire": wire})
	win := b.upd[u]
	b.upd[u] = [2]int{lo, win[1]}
	b.expect = append(b.expect, fmt.Sprintf("prepend-ok:%d", lo))
}

// badprepend: events lo..hi that do not connect to update u: refused, u unchanged
func (b *histBuilder) badprepend(u string, lo, hi int, wire string) {
	b.steps = append(b.steps, map[string]any{"t": "prepend", "u": u, "from": lo, "to": hi, "wire": wire})
	b.expect = append(b.expect, "prepend-err")
}

// tamperedprepend: events lo..hi that connect to update u by their indices, one value altered:
// refused (the hashes do not link), u unchanged - also the product it may have cached
func (b *histBuilder) tamperedprepend(u string, lo, hi, k int, wire string) {
	b.steps = append(b.steps, map[string]any{"t": "prepend", "u": u, "from": lo, "to": hi, "wire": wire, "tamper": k})
	b.expect = append(b.expect, "prepend-err")
}

// mkbadevents: update message from..to whose accumulator is genuine but one event value is altered:
// every application must fail and leave the witness as it was
func (b *histBuilder) mkbadevents(id string, from, to, k int) {
	b.steps = append(b.steps, map[string]any{"t": "mkupdate", "u": id, "from": from, "to": to, "badevents": true, "badk": k})
	b.upd[id] = [2]int{from, to}
	b.badev[id] = true
	b.expect = append(b.expect, "update-ok")
}

// mkresplit: event k of the window re-split: its value bytes appended to its parent hash, its
// value replaced (the hashed byte string index || parent hash || value stays what it was)
func (b *histBuilder) mkresplit(id string, from, to, k int, moved []byte, val *big.Int) {
	b.steps = append(b.steps, map[string]any{"t": "mkupdate", "u": id, "from": from, "to": to, "badevents": true, "badk": k, "bade": hx(val), "badparentappend": hb(moved)})
	b.upd[id] = [2]int{from, to}
	b.badev[id] = true
	b.expect = append(b.expect, "update-ok")
}

// redecode: the message for from..to read into the existing update object u
func (b *histBuilder) redecode(id string, from, to int) {
	b.steps = append(b.steps, map[string]any{"t": "redecode", "u": id, "from": from, "to": to})
	b.upd[id] = [2]int{from, to}
	delete(b.badev, id)
	delete(b.badupd, id)
	b.expect = append(b.expect, "redecode-ok")
}

// mkothercounter: a genuine update announced under another key counter: never applicable
func (b *histBuilder) mkothercounter(id string, from, to int) {
	b.steps = append(b.steps, map[string]any{"t": "mkupdate", "u": id, "from": from, "to": to, "othercounter": true})
	b.upd[id] = [2]int{from, to}
	b.badev[id] = true
	b.expect = append(b.expect, "update-ok")
}

// mkbadeventsVal: as mkbadevents, with event k of the window replaced by the given value
func (b *histBuilder) mkbadeventsVal(id string, from, to, k int, val *big.Int) {
	b.steps = append(b.steps, map[string]any{"t": "mkupdate", "u": id, "from": from, "to": to, "badevents": true, "badk": k, "bade": hx(val)})
	b.upd[id] = [2]int{from, to}
	b.badev[id] = true
	b.expect = append(b.expect, "update-ok")
}

// chosenEventValuesOp: a genuine signed accumulator whose event list carries, at every position in
// turn, a value chosen against a particular holder: a multiple of the holder's own value, the
// genuine value extended by further bytes into such a multiple (same leading bytes), or zero. Were
// the message accepted, the holder's never-revoked witness would be reported revoked. All values
// have the full length of a revocation attribute.
func chosenEventValuesOp(g *Rng, kp *KeyPair) Op {
	full := func() *big.Int {
		for {
			x := g.exactBits(int(revocation.Parameters.AttributeSize))
			x.SetBit(x, 0, 1)
			if x.ProbablyPrime(20) {
				return x
			}
		}
	}
	n := 4
	b := newHistBuilder()
	nu0 := randomQR(g, kp.pk.N)
	var wes, evs []*big.Int
	evs = append(evs, bi(1))
	for i := 0; i <= n; i++ {
		e := full()
		wes = append(wes, e)
		b.witness(fmt.Sprintf("w%d", i), e)
		if i < n {
			v := full()
			evs = append(evs, v)
			b.revoke(v)
		}
	}
	k := 0
	for from := 1; from <= n; from++ {
		for to := from; to <= n; to++ {
			target := from - 1 // the witness standing just behind the window: every event is processed
			we := wes[target]
			for pos := 0; pos <= to-from; pos++ {
				orig := evs[from+pos]
				shift := new(big.Int).Lsh(orig, 8*26)
				r := new(big.Int).Mod(new(big.Int).Neg(shift), we)
				for _, val := range []*big.Int{new(big.Int).Mul(orig, we), new(big.Int).Add(shift, r), bi(0), new(big.Int).Set(we)} {
					id := fmt.Sprintf("cv%d", k)
					k++
					b.mkbadeventsVal(id, from, to, pos, val)
					tmp := "t" + id
					b.clone(fmt.Sprintf("w%d", target), tmp)
					b.apply(tmp, id)
					b.verifyw(tmp)
				}
			}
		}
	}
	// the first event of a window re-split between parent hash and value (all of the value moved:
	// value 0; all but the last byte moved), met by the witness just behind the window
	for from := 1; from <= n; from++ {
		eb := evs[from].Bytes()
		for vi, cut := range []int{len(eb), len(eb) - 1, 1} {
			if cut <= 0 || cut > len(eb) {
				continue
			}
			id := fmt.Sprintf("rs%d_%d", from, vi)
			b.mkresplit(id, from, n, 0, eb[:cut], new(big.Int).SetBytes(eb[cut:]))
			tmp := "t" + id
			b.clone(fmt.Sprintf("w%d", from-1), tmp)
			b.apply(tmp, id)
			b.verifyw(tmp)
		}
	}
	// genuine updates announced under another key counter, met by witnesses behind, inside and at
	// the end of the window (at the end nothing is left to compute: the accumulator alone is taken over)
	for from := 1; from <= n; from++ {
		id := fmt.Sprintf("oc%d", from)
		b.mkothercounter(id, from, n)
		for wi := 0; wi <= n; wi++ {
			tmp := fmt.Sprintf("t%s_%d", id, wi)
			b.clone(fmt.Sprintf("w%d", wi), tmp)
			b.apply(tmp, id)
			b.verifyw(tmp)
		}
	}
	// an update object reused as the receiver of the next message, after witnesses have been
	// updated from it: they stay where they were until the new message is applied to them
	for _, win := range [][4]int{{1, 1, 1, 3}, {1, 2, 3, 4}, {1, 3, 1, 2}, {2, 2, 1, 4}} {
		id := fmt.Sprintf("re%d%d%d%d", win[0], win[1], win[2], win[3])
		b.mkupdate(id, win[0], win[1])
		var tmps []string
		for wi := 0; wi <= n; wi++ {
			tmp := fmt.Sprintf("t%s_%d", id, wi)
			tmps = append(tmps, tmp)
			b.clone(fmt.Sprintf("w%d", wi), tmp)
			b.apply(tmp, id)
		}
		b.redecode(id, win[2], win[3])
		for _, tmp := range tmps {
			b.verifyw(tmp)
		}
		for _, tmp := range tmps {
			b.apply(tmp, id)
			b.verifyw(tmp)
		}
	}
	o := b.op(kp, nu0, "chosen-event-values")
	o["fkey"] = "C10/chosen-event-values"
	return o
}

func (b *histBuilder) corrupt(w string) {
	b.steps = append(b.steps, map[string]any{"t": "corruptw", "w": w})
	b.wit[w].corrupt = true
	b.expect = append(b.expect, "corrupt-ok")
}
func (b *histBuilder) clone(from, to string) {
	b.steps = append(b.steps, map[string]any{"t": "clonew", "from": from, "to": to})
	c := *b.wit[from]
	b.wit[to] = &c
	b.expect = append(b.expect, "clone-ok")
}
func (b *histBuilder) apply(w, u string) {
	b.steps = append(b.steps, map[string]any{"t": "apply", "w": w, "u": u})
	sw, win := b.wit[w], b.upd[u]
	from, to := win[0], win[1]
	res := "ok"
	switch {
	case b.badev[u]:
		res = "err" // the message itself does not verify, whatever the witness's position
	case to <= sw.index:
		// nothing newer: witness stays where it is
	case from > sw.index+1:
		res = "err" // update too new: events missing
	default:
		revoked := false
		for i := sw.index + 1; i <= to; i++ {
			if b.es[i] == sw.e {
				revoked = true
			}
		}
		switch {
		case revoked:
			res = "revoked"
		case sw.corrupt || b.badupd[u]:
			res = "err" // the final check u'^e = nu' fails: the witness must stay exactly as it was
		default:
			sw.index = to
		}
	}
	b.expect = append(b.expect, fmt.Sprintf("%s:%d:%v", res, sw.index, !sw.corrupt))
}
func (b *histBuilder) verifyw(w string) {
	b.steps = append(b.steps, map[string]any{"t": "verifyw", "w": w})
	b.expect = append(b.expect, fmt.Sprintf("%v:%d", !b.wit[w].corrupt, b.wit[w].index))
}

func (b *histBuilder) op(kp *KeyPair, nu0 *big.Int, class string) Op {
	return Op{"op": "acc-history", "class": class, "label": strings.Join(b.expect, ";"), "key": kp.id,
		"nu0": hx(nu0), "time0": hxi(1000), "steps": b.steps}
}

func revPrime(g *Rng) *big.Int {
	for {
		x := g.exactBits(20 + g.intn(170))
		x.SetBit(x, 0, 1)
		if x.ProbablyPrime(20) {
			return x
		}
	}
}

func randomQR(g *Rng, n *big.Int) *big.Int {
	for {
		r := g.below(n)
		if new(big.Int).GCD(nil, nil, r, n).Cmp(bi(1)) == 0 {
			return r.Mul(r, r).Mod(r, n)
		}
	}
}

func genC09(g *Rng, tier string, emit func(Op)) {
	// (last) a witness whose signed accumulator was installed undecoded, as read from storage
	defer func() { emit(installedWitnessCopyOp(g, fixedKey("k1024a", true))) }()
	keys := []*KeyPair{toyKey("toy1", 3), fixedKey("k1024a", true)}
	// a short key whose group order (about 158 bits) lies below the longer revocation values
	shortKey := shortRevKey("short160", 160)
	emit(declKey(shortKey))
	emit(declSk(shortKey))
	maxRev, maxApps, nrandom, nhist := 3, 2, 3, 2
	if tier == "thorough" {
		maxRev, maxApps, nrandom, nhist = 5, 3, 30, 6
	}
	for _, kp := range keys {
		emit(declKey(kp))
		emit(declSk(kp))
	}
	emit(chosenEventValuesOp(g, keys[1]))
	for _, kp := range keys {
		n := 4
		if tier == "thorough" {
			n = 6
		}
		prependedChunkOps(g, kp, n, emit)
	}
	for _, kp := range append(append([]*KeyPair{}, keys...), shortKey) {
		revPrime := revPrime
		if kp == shortKey {
			// values longer than the group order of this key
			revPrime = func(g *Rng) *big.Int {
				for {
					x := g.exactBits(165 + g.intn(25))
					x.SetBit(x, 0, 1)
					if x.ProbablyPrime(20) {
						return x
					}
				}
			}
		}
		for nrev := 1; nrev <= maxRev; nrev++ {
			for hi := 0; hi < nhist; hi++ {
				// history: witness w<i> issued at index i; revocation k removes either an earlier
				// witness's value or a foreign value
				b := newHistBuilder()
				nu0 := randomQR(g, kp.pk.N)
				wes := []*big.Int{}
				for i := 0; i <= nrev; i++ {
					e := revPrime(g)
					wes = append(wes, e)
					b.witness(fmt.Sprintf("w%d", i), e)
					if i < nrev {
						var victim *big.Int
						if g.intn(3) != 0 {
							victim = wes[g.intn(len(wes))]
							// do not revoke the same value twice
							for _, prev := range b.es {
								if prev == victim.Go().Text(16) {
									victim = nil
									break
								}
							}
						}
						if victim == nil {
							victim = revPrime(g)
						}
						b.revoke(victim)
					}
				}
				// every contiguous window as an update object (shared between all witnesses)
				var wins []string
				for from := 1; from <= nrev; from++ {
					for to := from; to <= nrev; to++ {
						id := fmt.Sprintf("u%d_%d", from, to)
						b.mkupdate(id, from, to)
						wins = append(wins, id)
					}
				}
				// also windows that start at the initial event
				b.mkupdate("u0_all", 0, nrev)
				wins = append(wins, "u0_all")
				// every sequence of <= maxApps applications, on a fresh copy of every witness
				var seqs [][]string
				var rec func(prefix []string)
				rec = func(prefix []string) {
					if len(prefix) > 0 {
						seqs = append(seqs, append([]string{}, prefix...))
					}
					if len(prefix) == maxApps {
						return
					}
					for _, w := range wins {
						rec(append(prefix, w))
					}
				}
				rec(nil)
				limit := 60
				if tier == "thorough" {
					limit = 400
				}
				if len(seqs) > limit {
					g.r.Shuffle(len(seqs), func(i, j int) { seqs[i], seqs[j] = seqs[j], seqs[i] })
					seqs = seqs[:limit]
				}
				n := 0
				for _, seq := range seqs {
					for i := 0; i <= nrev; i++ {
						tmp := fmt.Sprintf("t%d", n)
						n++
						b.clone(fmt.Sprintf("w%d", i), tmp)
						for _, u := range seq {
							b.apply(tmp, u)
						}
						b.verifyw(tmp)
					}
				}
				// updates that pass every check except the final u'^e = nu': an invalid witness, or an
				// issuer-signed accumulator inconsistent with its events; followed by honest updates
				b.mkbadupdate("ubad", 1, nrev)
				for i := 0; i <= nrev; i++ {
					t1, t2 := fmt.Sprintf("c%d", i), fmt.Sprintf("d%d", i)
					b.clone(fmt.Sprintf("w%d", i), t1)
					b.corrupt(t1)
					for _, u := range wins {
						b.apply(t1, u)
					}
					b.verifyw(t1)
					b.clone(fmt.Sprintf("w%d", i), t2)
					b.apply(t2, "ubad")
					b.verifyw(t2)
					b.apply(t2, wins[len(wins)-1])
					b.verifyw(t2)
				}
				emit(b.op(kp, nu0, fmt.Sprintf("exhaustive-nrev%d", nrev)))
			}
		}
		// random longer histories with interleaved issuance, revocation, updates
		for r := 0; r < nrandom; r++ {
			b := newHistBuilder()
			nu0 := randomQR(g, kp.pk.N)
			var live []string
			vals := map[string]*big.Int{}
			nw, nu := 0, 0
			for step := 0; step < 40; step++ {
				switch g.intn(5) {
				case 0:
					id := fmt.Sprintf("w%d", nw)
					nw++
					e := revPrime(g)
					vals[id] = e
					b.witness(id, e)
					live = append(live, id)
				case 1:
					if len(live) > 0 && g.coin() {
						id := live[g.intn(len(live))]
						dup := false
						for _, prev := range b.es {
							if prev == vals[id].Go().Text(16) {
								dup = true
							}
						}
						if !dup {
							b.revoke(vals[id])
							continue
						}
					}
					b.revoke(revPrime(g))
				default:
					cur := len(b.es) - 1
					if cur == 0 || len(live) == 0 {
						continue
					}
					from := 1 + g.intn(cur)
					to := from + g.intn(cur-from+1)
					id := fmt.Sprintf("u%d", nu)
					nu++
					b.mkupdate(id, from, to)
					// apply the same object to several witnesses
					for k := 0; k < 1+g.intn(3); k++ {
						b.apply(live[g.intn(len(live))], id)
					}
				}
			}
			for _, w := range live {
				b.verifyw(w)
			}
			emit(b.op(kp, nu0, "random-history"))
		}
	}
}

// prependedChunkOps: history fetched in chunks (see the comment in genC09)
func prependedChunkOps(g *Rng, kp *KeyPair, n int, emit func(Op)) {
	// history fetched in chunks: an update for from..n gets the events lo..hi put in front
	// (adjacent or overlapping, in memory or from the wire with its product) and is then applied to a
	// witness that stands right before lo, and to one further back (which must get an error)
	{
		for _, wire := range []string{"", "json-product", "flatten", "flatten-reused"} {
			b := newHistBuilder()
			nu0 := randomQR(g, kp.pk.N)
			for i := 0; i <= n; i++ {
				b.witness(fmt.Sprintf("w%d", i), revPrime(g))
				if i < n {
					b.revoke(revPrime(g))
				}
			}
			k := 0
			for from := 2; from <= n; from++ {
				for lo := 1; lo < from; lo++ {
					for hi := from - 1; hi <= n && hi <= from+1; hi++ {
						id := fmt.Sprintf("p%d", k)
						k++
						b.mkupdate(id, from, n)
						if from >= 3 {
							// first a chunk that does not connect (a gap before the update's first event): it
							// is refused and leaves the update as it was
							b.badprepend(id, 1, from-2, wire)
						}
						if hi == from-1 {
							// the update is used once (its product gets cached), then a chunk with an altered
							// value is offered and refused, then the genuine chunk
							tmp := fmt.Sprintf("t%d_pre", k)
							b.clone(fmt.Sprintf("w%d", from-1), tmp)
							b.apply(tmp, id)
							b.tamperedprepend(id, lo, hi, k, wire)
						}
						b.prepend(id, lo, hi, wire)
						for _, wi := range []int{lo - 1, lo, n} {
							tmp := fmt.Sprintf("t%d_%d", k, wi)
							b.clone(fmt.Sprintf("w%d", wi), tmp)
							b.apply(tmp, id)
							b.verifyw(tmp)
						}
						if lo >= 2 {
							tmp := fmt.Sprintf("t%d_far", k)
							b.clone("w0", tmp)
							b.apply(tmp, id)
						}
					}
				}
			}
			emit(b.op(kp, nu0, "prepended-chunks-"+wire))
		}
	}
}
