package main

import (
	"bytes"
	"crypto/sha256"
	"fmt"
	"strings"
	"sync"

	"github.com/fxamacker/cbor"
	"github.com/privacybydesign/gabi"
	"github.com/privacybydesign/gabi/big"
	"github.com/privacybydesign/gabi/gabikeys"
	"github.com/privacybydesign/gabi/rangeproof"
)

// C14: keyshare protocol — joint proofs complete, server bound to commitment.

type ksIn = gabi.KeyshareUserChallengeInput[string]

// mirror of the challenge-input encoding (the harness' own CBOR rendering of what the user
// committed to): CBOR itself is external to the model
type ksMirror struct {
	KeyID            *string    `json:"key,omitempty"`
	Value            *big.Int   `json:"val"`
	Commitment       *big.Int   `json:"comm"`
	OtherCommitments []*big.Int `json:"otherComms,omitempty"`
}

func ksHash(in []ksIn) []byte {
	m := make([]ksMirror, len(in))
	for i, x := range in {
		m[i] = ksMirror{x.KeyID, x.Value, x.Commitment, x.OtherCommitments}
	}
	bts, err := cbor.Marshal(m, cbor.EncOptions{})
	if err != nil {
		panic(err)
	}
	h := sha256.Sum256(bts)
	return h[:]
}

func ksInputsTree(in []ksIn) []any {
	r := make([]any, len(in))
	for i, x := range in {
		var k any
		if x.KeyID != nil {
			k = *x.KeyID
		}
		r[i] = map[string]any{"key": k, "val": hx(x.Value), "comm": hx(x.Commitment), "others": hxs(x.OtherCommitments)}
	}
	return r
}

func ksInputsOf(v any) []ksIn {
	arr := v.([]any)
	r := make([]ksIn, len(arr))
	for i, x := range arr {
		m := x.(map[string]any)
		var k *string
		if s, ok := m["key"].(string); ok {
			k = &s
		}
		others := unhxs(m["others"])
		if len(others) == 0 {
			others = nil
		}
		r[i] = ksIn{KeyID: k, Value: unhx(m["val"]), Commitment: unhx(m["comm"]), OtherCommitments: others}
	}
	return r
}

func init() {
	generators["C14"] = genC14
	// a keyshare server answers the second messages of many sessions at the same time: every honest
	// request gets its answer, with the challenge the user computed
	executors["ks-concurrent"] = func(o Op) string {
		reqs, _ := o["requests"].([]any)
		rounds := o.int("rounds")
		var mu sync.Mutex
		bad, total := 0, 0
		var wg sync.WaitGroup
		for _, r := range reqs {
			req := Op(r.(map[string]any))
			want := strings.SplitN(req.str("label"), " ", 2)[0]
			wg.Add(1)
			go func() {
				defer wg.Done()
				for k := 0; k < rounds; k++ {
					got := safely(func() string { return executors["ks-response"](req) })
					mu.Lock()
					total++
					if strings.SplitN(got, " ", 2)[0] != want {
						bad++
					}
					mu.Unlock()
				}
			}()
		}
		wg.Wait()
		if bad > 0 {
			return fmt.Sprintf("refused-or-wrong %d of %d", bad, total)
		}
		return "ok"
	}
	executors["ks-response"] = func(o Op) string {
		keys := map[string]*gabikeys.PublicKey{}
		for _, id := range strsOf(o["keys"]) {
			keys[id] = execKey(id).pk
		}
		if o["nilkeys"] != nil {
			// ids the server's table lists without a key (a lookup that came back empty)
			for _, id := range strsOf(o["nilkeys"]) {
				keys[id] = nil
			}
		}
		req := gabi.KeyshareResponseRequest[string]{
			Context: unhx(o["context"]), Nonce: unhx(o["nonce"]), UserResponse: unhx(o["resp"]),
			IsSignatureSession: o.boolean("issig"), UserChallengeInput: ksInputsOf(o["inputs"]),
		}
		p, err := gabi.KeyshareResponse(unhx(o["secret"]), unhx(o["randomizer"]),
			gabi.KeyshareCommitmentRequest{HashedUserCommitments: unhb(o["hw"])}, req, keys)
		if err != nil {
			return "err"
		}
		return fmt.Sprintf("ok:%s s=%s", showInt(p.C), showInt(p.SResponse))
	}
}

func ksOp(keyIDs []string, kssSecret, kssRand *big.Int, hw []byte, context, nonce, resp *big.Int, issig bool, in []ksIn, class, label string) Op {
	l := make([]any, len(keyIDs))
	for i, k := range keyIDs {
		l[i] = k
	}
	return Op{"op": "ks-response", "class": class, "label": label, "keys": l, "secret": hx(kssSecret), "randomizer": hx(kssRand),
		"hw": hb(hw), "hashmatch": bytes.Equal(ksHash(in), hw), "context": hx(context), "nonce": hx(nonce), "resp": hx(resp),
		"issig": issig, "inputs": ksInputsTree(in)}
}

func genC14(g *Rng, tier string, emit func(Op)) {
	ka, kb, kc := fixedKey("k1024a", true), fixedKey("k1024b", true), fixedKey("k2048", true)
	// (the recorded runs come last, so that the sessions below do not depend on what they draw)
	defer func() {
		for n := 1; n <= 3; n++ {
			emit(legacyTwoDisclosuresOp(g, ka, n, n == 2))
		}
		for _, issig := range []bool{false, true} {
			emit(witnessUpdateBetweenMessagesOp(g, ka, issig))
		}
	}()
	// two keys of one issuer (counters 0 and 1): the protocol identifies keys by issuer AND counter
	kd := rotatedKey(ka, kb, 1)
	pool := []*KeyPair{ka, kb, kc, kd}
	rounds := 8
	if tier == "thorough" {
		rounds = 40
	}
	for _, k := range pool {
		emit(declKey(k))
	}
	kssSecret, _ := gabi.NewKeyshareSecret()
	var honestReqs []any
	defer func() {
		rounds := 30
		if tier == "thorough" {
			rounds = 300
		}
		emit(Op{"op": "ks-concurrent", "class": "concurrent-sessions", "label": "ok", "nomodel": true, "requests": honestReqs, "rounds": rounds})
	}()
	userSecret, _ := gabi.GenerateSecretAttribute()
	for r := 0; r < rounds; r++ {
		n := 1 + r%4
		// which keys take part in the keyshare protocol
		part := map[string]*gabikeys.PublicKey{}
		var partIDs []string
		for _, k := range pool {
			// round 1 has a fixed shape: two disclosures under keys of different sizes (1024 and 2048
			// bits), every key taking part - the server's one randomiser has to fit the smaller key
			if g.coin() || len(part) == 0 || r == 1 {
				part[k.id] = k.pk
				partIDs = append(partIDs, k.id)
			}
		}
		var builders gabi.ProofBuilderList
		var kps []*KeyPair
		// sessions alternate between the default context (1, also sent as "no context") and an
		// explicit one: what one session sends must not influence the next (one server process)
		context := bi(1)
		if r%2 == 1 {
			context = g.bits(256)
		}
		for i := 0; i < n; i++ {
			kp := pool[g.intn(len(pool))]
			if r == 1 {
				kp = []*KeyPair{ka, kc}[i%2]
			}
			kps = append(kps, kp)
			var ksP *big.Int
			if _, ok := part[kp.id]; ok {
				ksP = new(big.Int).Exp(kp.pk.R[0], kssSecret, kp.pk.N)
			}
			if g.intn(3) == 0 && r != 1 {
				b, err := gabi.NewCredentialBuilder(kp.pk, context, userSecret, g.bits(80), ksP, nil)
				if err != nil {
					panic(err)
				}
				builders = append(builders, b)
				continue
			}
			nonrev := g.intn(3) == 0
			attrs := []*big.Int{g.bits(100), g.bits(50)}
			var rs *revState
			if nonrev {
				rs = revSetup(kp)
				attrs = append(attrs, rs.witness.E)
			}
			// credential over total secret = user share + server share (signature made with KeyshareP)
			ms := append([]*big.Int{userSecret}, attrs...)
			u := bi(1)
			if ksP != nil {
				u = ksP
			}
			sig, err := gabi.VerifSignMessageBlockAndCommitment(kp.sk, kp.pk, u, ms)
			if err != nil {
				panic(err)
			}
			sig.KeyshareP = ksP
			cred := &gabi.Credential{Signature: sig, Pk: kp.pk, Attributes: ms}
			var stm map[int][]*rangeproof.Statement
			if g.intn(3) == 0 {
				st, _ := rangeproof.NewStatement(rangeproof.GreaterOrEqual, bi(1))
				stm = map[int][]*rangeproof.Statement{2: {st}}
			}
			if nonrev {
				cred.NonRevocationWitness = rs.witness
			}
			b, err := cred.CreateDisclosureProofBuilder([]int{1}, stm, nonrev)
			if err != nil {
				panic(err)
			}
			builders = append(builders, b)
		}
		issig := g.coin()
		nonce := g.bits(128)
		userRand := g.bits(592)
		randomizers := map[string]*big.Int{"secretkey": userRand}
		if r%3 == 2 {
			// an earlier attempt over the same builders that was given up after the server's
			// commitments had been set (every builder got one); the builders are reset before the
			// exchange proper, which must then run as if nothing had happened
			var allKeys []*gabikeys.PublicKey
			for _, kp := range kps {
				allKeys = append(allKeys, kp.pk)
			}
			_, old, err := gabi.NewKeyshareCommitments(kssSecret, allKeys)
			if err != nil {
				panic(err)
			}
			for i, b := range builders {
				b.SetProofPCommitment(old[i])
			}
			if _, _, err := gabi.KeyshareUserCommitmentRequest(builders, map[string]*big.Int{"secretkey": g.bits(592)}, part); err != nil {
				panic(err)
			}
			for _, b := range builders {
				b.SetProofPCommitment(nil)
			}
		}
		commReq, hashInput, err := gabi.KeyshareUserCommitmentRequest(builders, randomizers, part)
		if err != nil {
			panic(err)
		}
		var partKeys []*gabikeys.PublicKey
		for _, kp := range kps {
			partKeys = append(partKeys, kp.pk)
		}
		kssRand, kssComm, err := gabi.NewKeyshareCommitments(kssSecret, partKeys)
		if err != nil {
			panic(err)
		}
		for i, b := range builders {
			if _, ok := part[kps[i].id]; ok {
				b.SetProofPCommitment(kssComm[i])
			}
		}
		respReq, challenge, err := gabi.KeyshareUserResponseRequest(builders, randomizers, hashInput, context, nonce, issig)
		if err != nil {
			panic(err)
		}
		honest := "ok:" + showInt(challenge) // both sides compute the same challenge
		hw := commReq.HashedUserCommitments
		in := respReq.UserChallengeInput
		if context.Cmp(bi(1)) == 0 {
			// first, so that it directly follows the previous session's requests (explicit context)
			emit(ksOp(partIDs, kssSecret, kssRand, hw, nil, nonce, respReq.UserResponse, issig, in, "honest-nil-context", honest))
		}
		ho := ksOp(partIDs, kssSecret, kssRand, hw, context, nonce, respReq.UserResponse, issig, in, "honest", honest)
		emit(ho)
		if len(honestReqs) < 16 {
			honestReqs = append(honestReqs, cloneTree(map[string]any(ho)))
		}
		// the joint proof list verifies for total secret = user + server share
		// (the request carries the session's context itself since 300e042)
		proofP, err := gabi.KeyshareResponse(kssSecret, kssRand, commReq, respReq, part)
		if err != nil {
			panic(err)
		}
		proofPs := make([]*gabi.ProofP, n)
		kss := make([]string, n)
		for i := range builders {
			if _, ok := part[kps[i].id]; ok {
				proofPs[i] = proofP
				kss[i] = "kss"
			}
		}
		pl, err := builders.BuildDistributedProofList(challenge, proofPs)
		if err != nil {
			panic(err)
		}
		trees := proofListTrees(pl)
		ambig := false
		for _, t := range trees {
			if tt, ok := t.(T); ok && tt["nonrev_proof"] != nil && ambiguous(tt) {
				ambig = true // the known verifier ambiguity of C11 is not this property's concern
			}
		}
		if !ambig {
			emit(listOp(kps, trees, context, nonce, issig, kss, "joint-list", "accept"))
		}
		// without the server's contribution the participating proofs do not verify
		pl2, _ := builders.BuildDistributedProofList(challenge, nil)
		anyPart := false
		for _, l := range kss {
			anyPart = anyPart || l == "kss"
		}
		if anyPart {
			emit(listOp(kps, proofListTrees(pl2), context, nonce, issig, kss, "without-server", "reject"))
		}
		// a second complete exchange over the same builders (a retry with a new nonce: fresh
		// randomisers, fresh server commitments): the joint list verifies again
		if r%2 == 0 && !ambig {
			func() {
				nonce2 := g.bits(128)
				rnd2 := map[string]*big.Int{"secretkey": g.bits(592)}
				for _, b := range builders {
					b.SetProofPCommitment(nil)
				}
				commReq2, hashInput2, err := gabi.KeyshareUserCommitmentRequest(builders, rnd2, part)
				if err != nil {
					emit(Op{"op": "recorded", "class": "second-exchange", "label": "completed", "nomodel": true, "result": "commitment request: " + err.Error()})
					return
				}
				kssRand2, kssComm2, err := gabi.NewKeyshareCommitments(kssSecret, partKeys)
				if err != nil {
					panic(err)
				}
				for i, b := range builders {
					if _, ok := part[kps[i].id]; ok {
						b.SetProofPCommitment(kssComm2[i])
					}
				}
				respReq2, challenge2, err := gabi.KeyshareUserResponseRequest(builders, rnd2, hashInput2, context, nonce2, issig)
				if err != nil {
					emit(Op{"op": "recorded", "class": "second-exchange", "label": "completed", "nomodel": true, "result": "response request: " + err.Error()})
					return
				}
				emit(ksOp(partIDs, kssSecret, kssRand2, commReq2.HashedUserCommitments, context, nonce2, respReq2.UserResponse, issig, respReq2.UserChallengeInput, "honest-second-exchange", "ok:"+showInt(challenge2)))
				proofP2, err := gabi.KeyshareResponse(kssSecret, kssRand2, commReq2, respReq2, part)
				if err != nil {
					emit(Op{"op": "recorded", "class": "second-exchange", "label": "completed", "nomodel": true, "result": "server: " + err.Error()})
					return
				}
				pps := make([]*gabi.ProofP, n)
				for i := range builders {
					if _, ok := part[kps[i].id]; ok {
						pps[i] = proofP2
					}
				}
				plB, err := builders.BuildDistributedProofList(challenge2, pps)
				if err != nil {
					emit(Op{"op": "recorded", "class": "second-exchange", "label": "completed", "nomodel": true, "result": "proof list: " + err.Error()})
					return
				}
				t2 := proofListTrees(plB)
				for _, t := range t2 {
					if tt, ok := t.(T); ok && tt["nonrev_proof"] != nil && ambiguous(tt) {
						return
					}
				}
				emit(listOp(kps, t2, context, nonce2, issig, kss, "joint-list-second-exchange", "accept").with("fkey", "C14/second-exchange"))
			}()
		}
		// every alteration of the second message relative to the first
		alt := func(class string, f func(in []ksIn) []ksIn) {
			cp := make([]ksIn, len(in))
			for i, x := range in {
				cp[i] = ksIn{KeyID: x.KeyID, Value: new(big.Int).Set(x.Value), Commitment: new(big.Int).Set(x.Commitment)}
				for _, oc := range x.OtherCommitments {
					cp[i].OtherCommitments = append(cp[i].OtherCommitments, new(big.Int).Set(oc)) // deep copy: the alterations mutate in place
				}
			}
			emit(ksOp(partIDs, kssSecret, kssRand, hw, context, nonce, respReq.UserResponse, issig, f(cp), class, "err"))
		}
		i := g.intn(n)
		alt("value-changed", func(in []ksIn) []ksIn { in[i].Value.Add(in[i].Value, bi(1)); return in })
		alt("commitment-changed", func(in []ksIn) []ksIn { in[i].Commitment.Add(in[i].Commitment, bi(1)); return in })
		alt("other-commitment-added", func(in []ksIn) []ksIn {
			in[i].OtherCommitments = append(in[i].OtherCommitments, g.bits(100))
			return in
		})
		if len(in[i].OtherCommitments) > 0 {
			alt("other-commitment-changed", func(in []ksIn) []ksIn {
				in[i].OtherCommitments[0].Add(in[i].OtherCommitments[0], bi(1))
				return in
			})
			alt("other-commitment-dropped", func(in []ksIn) []ksIn { in[i].OtherCommitments = in[i].OtherCommitments[1:]; return in })
		}
		alt("key-id-changed", func(in []ksIn) []ksIn {
			if in[i].KeyID == nil {
				s := partIDs[0]
				in[i].KeyID = &s
			} else {
				in[i].KeyID = nil
			}
			return in
		})
		// a second message with parts missing: an error, no response (and no crash)
		for _, what := range []string{"val", "comm", "nonce", "resp"} {
			o := ksOp(partIDs, kssSecret, kssRand, hw, context, nonce, respReq.UserResponse, issig, in, "second-message-"+what+"-missing", "err")
			o["nomodel"], o["fkey"] = true, "C14/second-message-incomplete"
			switch what {
			case "val", "comm":
				ins := cloneTree(o["inputs"]).([]any)
				delete(ins[i].(map[string]any), what)
				o["inputs"] = ins
			default:
				delete(o, what)
			}
			emit(o)
		}
		alt("key-id-unknown", func(in []ksIn) []ksIn { s := "nobody"; in[i].KeyID = &s; return in })
		alt("entry-dropped", func(in []ksIn) []ksIn { return append(in[:i], in[i+1:]...) })
		alt("entry-duplicated", func(in []ksIn) []ksIn { return append(in, in[i]) })
		if n > 1 {
			alt("order-swapped", func(in []ksIn) []ksIn {
				j := (i + 1) % n
				in[i], in[j] = in[j], in[i]
				if jsonEq(ksInputsTree(in), ksInputsTree(respReq.UserChallengeInput)) {
					in[i].Value.Add(in[i].Value, bi(1))
				}
				return in
			})
		}
		// a first message that does not commit to what is presented
		bad := append([]byte{}, hw...)
		bad[g.intn(len(bad))] ^= 1
		emit(ksOp(partIDs, kssSecret, kssRand, bad, context, nonce, respReq.UserResponse, issig, in, "commitment-hash-changed", "err"))
		// the server does not know the key
		if len(partIDs) > 1 {
			emit(ksOp(partIDs[1:], kssSecret, kssRand, hw, context, nonce, respReq.UserResponse, issig, in, "server-lacks-key", ksLacksLabel(in, partIDs[1:], honest)))
		}
		// the server's table lists the key id without a key: the same as not knowing it
		if len(partIDs) >= 1 {
			rest := partIDs[1:]
			o := ksOp(rest, kssSecret, kssRand, hw, context, nonce, respReq.UserResponse, issig, in, "server-has-empty-key-entry", ksLacksLabel(in, rest, honest))
			o["nilkeys"] = []any{partIDs[0]}
			o["fkey"] = "C14/empty-key-entry"
			emit(o)
		}
		// other nonce / session kind: the server computes another challenge (no error demanded,
		// but the challenge must differ from the user's)
	}
}

// ksLacksLabel: an error is demanded only if one of the inputs actually names the missing key.
func ksLacksLabel(in []ksIn, known []string, honest string) string {
	for _, x := range in {
		if x.KeyID == nil {
			continue
		}
		found := false
		for _, k := range known {
			if k == *x.KeyID {
				found = true
			}
		}
		if !found {
			return "err"
		}
	}
	return honest
}

// legacyTwoDisclosuresOp: the legacy keyshare protocol (the server answers with its share of the
// response and P) with n credentials of one keyshare server in one session: the one answer is
// merged into every proof; the list verifies and the server's answer is what it was.
func legacyTwoDisclosuresOp(g *Rng, kp *KeyPair, n int, issig bool) Op {
	pk := kp.pk
	res := func() (r string) {
		defer func() {
			if e := recover(); e != nil {
				r = fmt.Sprintf("panic: %v", e)
			}
		}()
		ctx, nonce := g.bits(256), g.bits(80)
		userSecret := g.bits(int(pk.Params.Lm) - 2)
		kssSecret, err := gabi.NewKeyshareSecret()
		if err != nil {
			return "failed: " + err.Error()
		}
		ksP := new(big.Int).Exp(pk.R[0], kssSecret, pk.N)
		var builders gabi.ProofBuilderList
		var keys []*gabikeys.PublicKey
		var kss []string
		for i := 0; i < n; i++ {
			ms := []*big.Int{userSecret, g.bits(100), g.bits(50)}
			sig, err := gabi.VerifSignMessageBlockAndCommitment(kp.sk, pk, ksP, ms)
			if err != nil {
				return "failed: " + err.Error()
			}
			sig.KeyshareP = ksP
			cred := &gabi.Credential{Signature: sig, Pk: pk, Attributes: ms}
			b, err := cred.CreateDisclosureProofBuilder([]int{1 + i%2}, nil, false)
			if err != nil {
				return "failed: " + err.Error()
			}
			builders = append(builders, b)
			keys = append(keys, pk)
			kss = append(kss, "kss")
		}
		kssRand, kssComm, err := gabi.NewKeyshareCommitments(kssSecret, keys)
		if err != nil {
			return "failed: " + err.Error()
		}
		for i, b := range builders {
			b.SetProofPCommitment(kssComm[i])
		}
		rnd := map[string]*big.Int{"secretkey": g.bits(int(pk.Params.LmCommit) - 2)}
		c, err := builders.ChallengeWithRandomizers(ctx, nonce, rnd, issig)
		if err != nil {
			return "failed: " + err.Error()
		}
		pp := gabi.KeyshareResponseLegacy(kssSecret, kssRand, c, pk)
		before := showInt(pp.SResponse) + showInt(pp.C) + showInt(pp.P)
		pps := make([]*gabi.ProofP, n)
		for i := range pps {
			pps[i] = pp
		}
		pl, err := builders.BuildDistributedProofList(c, pps)
		if err != nil {
			return "failed: " + err.Error()
		}
		if !pl.Verify(keys, ctx, nonce, issig, kss) {
			return "failed: the joint list does not verify"
		}
		if showInt(pp.SResponse)+showInt(pp.C)+showInt(pp.P) != before {
			return "failed: the server's answer was changed by merging it"
		}
		return "verified"
	}()
	return Op{"op": "recorded", "class": fmt.Sprintf("legacy-keyshare-%d-disclosures", n), "label": "verified", "nomodel": true,
		"fkey": "legacy-keyshare-disclosures", "result": res, "key": kp.id, "issig": issig}
}

// witnessUpdateBetweenMessagesOp: a keyshare exchange over a credential with a non-revocation part,
// the credential's witness being updated (another credential was revoked) between the user's first
// and second message: both sides still compute one challenge, the joint list verifies.
func witnessUpdateBetweenMessagesOp(g *Rng, kp *KeyPair, issig bool) Op {
	pk := kp.pk
	res := func() (r string) {
		defer func() {
			if e := recover(); e != nil {
				r = fmt.Sprintf("panic: %v", e)
			}
		}()
		for try := 0; try < 4; try++ {
			ctx, nonce := g.bits(256), g.bits(80)
			userSecret := g.bits(int(pk.Params.Lm) - 2)
			kssSecret, err := gabi.NewKeyshareSecret()
			if err != nil {
				return "failed: " + err.Error()
			}
			ksP := new(big.Int).Exp(pk.R[0], kssSecret, pk.N)
			ir := newIssuerRev(g, kp)
			w := ir.witnessFor()
			ms := []*big.Int{userSecret, g.bits(100), w.E}
			sig, err := gabi.VerifSignMessageBlockAndCommitment(kp.sk, pk, ksP, ms)
			if err != nil {
				return "failed: " + err.Error()
			}
			sig.KeyshareP = ksP
			cred := &gabi.Credential{Signature: sig, Pk: pk, Attributes: ms, NonRevocationWitness: w}
			b, err := cred.CreateDisclosureProofBuilder([]int{1}, nil, true)
			if err != nil {
				return "failed: " + err.Error()
			}
			builders := gabi.ProofBuilderList{b}
			part := map[string]*gabikeys.PublicKey{kp.id: pk}
			rnd := map[string]*big.Int{"secretkey": g.bits(592)}
			commReq, hashInput, err := gabi.KeyshareUserCommitmentRequest(builders, rnd, part)
			if err != nil {
				return "failed: " + err.Error()
			}
			kssRand, kssComm, err := gabi.NewKeyshareCommitments(kssSecret, []*gabikeys.PublicKey{pk})
			if err != nil {
				return "failed: " + err.Error()
			}
			b.SetProofPCommitment(kssComm[0])
			// meanwhile
			from := ir.acc.Index + 1
			ir.revoke(revPrime(g))
			if err := cred.NonRevocationWitness.Update(pk, ir.updateFrom(from)); err != nil {
				return "failed: witness update: " + err.Error()
			}
			respReq, challenge, err := gabi.KeyshareUserResponseRequest(builders, rnd, hashInput, ctx, nonce, issig)
			if err != nil {
				return "failed: " + err.Error()
			}
			proofP, err := gabi.KeyshareResponse(kssSecret, kssRand, commReq, respReq, part)
			if err != nil {
				return "failed: server: " + err.Error()
			}
			if proofP.C.Cmp(challenge) != 0 {
				return "failed: user and server computed different challenges"
			}
			pl, err := builders.BuildDistributedProofList(challenge, []*gabi.ProofP{proofP})
			if err != nil {
				return "failed: " + err.Error()
			}
			if t, ok := proofListTrees(pl)[0].(T); ok && ambiguous(t) {
				continue
			}
			if !pl.Verify([]*gabikeys.PublicKey{pk}, ctx, nonce, issig, []string{"kss"}) {
				return "failed: the joint list does not verify"
			}
			return "verified"
		}
		return "verified"
	}()
	return Op{"op": "recorded", "class": "witness-updated-between-the-two-messages", "label": "verified", "nomodel": true,
		"fkey": "C14/witness-updated-between-messages", "result": res, "key": kp.id, "issig": issig}
}
