package main

import "github.com/privacybydesign/gabi/gabikeys"

type gabikeysPublicKey = gabikeys.PublicKey
