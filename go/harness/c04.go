package main

import (
	"fmt"
	"strconv"

	"github.com/privacybydesign/gabi"
	"github.com/privacybydesign/gabi/big"
	"github.com/privacybydesign/gabi/revocation"
)

// C04: selective disclosure is complete and minimal.

type revState struct {
	update  *revocation.Update
	acc     *revocation.Accumulator
	witness *revocation.Witness
}

func revSetup(kp *KeyPair) *revState {
	update, err := revocation.NewAccumulator(kp.sk)
	if err != nil {
		panic(err)
	}
	acc, err := update.SignedAccumulator.UnmarshalVerify(kp.pk)
	if err != nil {
		panic(err)
	}
	w, err := revocation.RandomWitness(kp.sk, acc)
	if err != nil {
		panic(err)
	}
	w.SignedAccumulator = update.SignedAccumulator
	return &revState{update, acc, w}
}

func intsAny(l []int) []any {
	r := make([]any, len(l))
	for i, x := range l {
		r[i] = x
	}
	return r
}

func intsOf(v any) []int {
	arr, _ := v.([]any)
	r := make([]int, len(arr))
	for i, x := range arr {
		switch n := x.(type) {
		case float64:
			r[i] = int(n)
		case interface{ Int64() (int64, error) }:
			k, _ := n.Int64()
			r[i] = int(k)
		}
	}
	return r
}

// memberPredicates evaluates, independently of gabi's own verifier, what property C04 demands of
// an honest disclosure proof: exact key sets, true disclosed values, in-range implied
// randomisers, no hidden value among the numbers of the proof, timestamp contribution shape.
func memberPredicates(tree T, attrs []*big.Int, disclosed []int, lm, lmCommit uint, ts []*big.Int) string {
	dset := map[int]bool{}
	for _, d := range disclosed {
		dset[d] = true
	}
	ad, _ := tree["a_disclosed"].(map[string]any)
	ar, _ := tree["a_responses"].(map[string]any)
	c := unhx(tree["c"].(map[string]any)["$i"])
	for i := range attrs {
		k := strconv.Itoa(i)
		dv, isD := ad[k]
		rv, isH := ar[k]
		if dset[i] {
			if !isD || isH {
				return "shape"
			}
			h, ok := isLeafI(dv)
			if !ok || unhx(h).Cmp(attrs[i]) != 0 {
				return "value"
			}
		} else {
			if isD || !isH {
				return "shape"
			}
			h, ok := isLeafI(rv)
			if !ok {
				return "shape"
			}
			rnd := new(big.Int).Sub(unhx(h), new(big.Int).Mul(c, expOf(lm, attrs[i])))
			if rnd.Sign() < 0 || rnd.BitLen() > int(lmCommit) {
				return "randomizer"
			}
		}
	}
	if len(ad) != len(dset) || len(ar) != len(attrs)-len(dset) {
		return "shape"
	}
	// no hidden value (or its exponent) appears among the numbers of the proof
	leak := false
	walk(tree, nil, func(p Path, n any) {
		if h, ok := isLeafI(n); ok {
			v := unhx(h)
			for i, a := range attrs {
				if !dset[i] && a.BitLen() > 40 && !disclosedValue(attrs, dset, a) && (v.Cmp(a) == 0 || v.Cmp(expOf(lm, a)) == 0) {
					leak = true
				}
			}
		}
	})
	if leak {
		return "leak"
	}
	if ts != nil {
		if len(ts) != len(attrs) {
			return "timestamp"
		}
		for i := range attrs {
			want := bi(0)
			if dset[i] {
				want = attrs[i]
			}
			if ts[i].Cmp(want) != 0 {
				return "timestamp"
			}
		}
	}
	return ""
}

func init() {
	generators["C04"] = genC04
	executors["memberD"] = func(o Op) string {
		pk := execKey(o.str("key")).pk
		tree := o["proof"].(map[string]any)
		v := executors["verifyD"](o)
		if v != "accept" {
			return v
		}
		if why := memberPredicates(tree, unhxs(o["attrs"]), intsOf(o["disclosed"]), pk.Params.Lm, pk.Params.LmCommit, unhxs(o["ts"])); why != "" {
			return "accept-but-" + why
		}
		return "accept"
	}
	executors["randstat"] = func(o Op) string {
		if o.int("maxbits")+16 >= o.int("lmcommit") {
			return "ok"
		}
		return "short-randomizers"
	}
}

func genC04(g *Rng, tier string, emit func(Op)) {
	type kcase struct {
		kp   *KeyPair
		kmax int
	}
	cases := []kcase{{toyKey("toy1", 7), 4}, {fixedKey("k1024a", true), 3}}
	if tier == "thorough" {
		cases = []kcase{{toyKey("toy1", 7), 6}, {fixedKey("k1024a", true), 5}, {fixedKey("k2048", true), 6}}
	}
	for _, kc := range cases {
		emit(declKey(kc.kp))
	}
	// the keyshare variant in its legacy form, with one, two and three credentials of one server
	for n := 1; n <= 3; n++ {
		for _, issig := range []bool{false, true} {
			emit(legacyTwoDisclosuresOp(g, fixedKey("k1024a", true), n, issig))
		}
	}
	for _, kc := range cases {
		kp, pk := kc.kp, kc.kp.pk
		maxbits := 0
		for k := 1; k <= kc.kmax; k++ {
			// the revocation attribute (if any) sits last, first or in the middle of the credential
			for _, revPos := range []int{-1, k, 0, k / 2} {
				nonrev := revPos >= 0
				if nonrev && (!pk.RevocationSupported() || k+1 >= len(pk.R)) {
					continue
				}
				if revPos == k/2 && (k/2 == 0 || k/2 == k) {
					continue
				}
				if tier != "thorough" && nonrev && revPos != k && k > 3 {
					continue
				}
				attrs := make([]*big.Int, k)
				for i := range attrs {
					attrs[i] = attrValue(g, pk.Params.Lm)
				}
				var rs *revState
				if nonrev {
					rs = revSetup(kp)
					attrs = append(attrs[:revPos], append([]*big.Int{rs.witness.E}, attrs[revPos:]...)...)
				}
				revIndex := revPos + 1 // attribute number of the revocation attribute
				secret := randSecret(g)
				cred := issueCred(kp, secret, attrs)
				if nonrev {
					cred.NonRevocationWitness = rs.witness
				}
				// the true values: one Credential object serves all the proofs below, and whatever a
				// proof does to it must not change what later proofs report
				truth := make([]*big.Int, len(cred.Attributes))
				for i, a := range cred.Attributes {
					truth[i] = new(big.Int).Set(a)
				}
				for mask := 0; mask < 1<<k; mask++ {
					disclosed := subsetOf(mask, k)
					if nonrev {
						// attribute numbers after the revocation attribute are shifted by one
						for i, d := range disclosed {
							if d >= revIndex {
								disclosed[i] = d + 1
							}
						}
					}
					// a disclosure *set* may be given in any order (e.g. the order of a verifier's
					// request) and may repeat an index
					switch {
					case len(disclosed) >= 2 && mask%3 == 1:
						g.r.Shuffle(len(disclosed), func(i, j int) { disclosed[i], disclosed[j] = disclosed[j], disclosed[i] })
					case len(disclosed) >= 2 && mask%3 == 2:
						for i, j := 0, len(disclosed)-1; i < j; i, j = i+1, j-1 {
							disclosed[i], disclosed[j] = disclosed[j], disclosed[i]
						}
					}
					if !nonrev {
						emit(replayDOp(g, kp, cred, truth, disclosed, mask%2 == 0))
					}
					if len(disclosed) >= 1 && mask%4 == 3 {
						disclosed = append(disclosed, disclosed[0]) // repeated index (model prover not involved)
					}
					for _, issig := range []bool{false, true} {
						if tier != "thorough" && issig && mask%3 != 0 {
							continue
						}
						ctx, nonce := g.bits(256), g.bits(int(pk.Params.Lstatzk))
						b, err := cred.CreateDisclosureProofBuilder(disclosed, nil, nonrev)
						if err != nil {
							panic(err)
						}
						abandoned := ""
						if mask%2 == 1 {
							// a first attempt that is abandoned after the challenge (fresh randomisers are
							// drawn per attempt): the builder must still produce a verifying proof afterwards
							if _, err := (gabi.ProofBuilderList{b}).Challenge(g.bits(256), g.bits(80), issig); err != nil {
								panic(err)
							}
							abandoned = "-after-abandoned-attempt"
						}
						pl, err := gabi.ProofBuilderList{b}.BuildProofList(ctx, nonce, issig)
						if err != nil {
							panic(err)
						}
						proof := pl[0].(*gabi.ProofD)
						_, ts := b.TimestampRequestContributions()
						tree := proofDTree(proof)
						if nonrev && ambiguous(tree) {
							continue // the known verifier ambiguity of C11 is not this property's concern
						}
						where := ""
						if nonrev && revPos != k {
							where = fmt.Sprintf("-at%d", revIndex)
						}
						op := Op{"op": "memberD", "class": fmt.Sprintf("subset-k%d-nonrev%v%s%s", k, nonrev, where, abandoned), "label": "accept", "key": kp.id,
							"proof": tree, "context": hx(ctx), "nonce": hx(nonce), "issig": issig,
							"attrs": hxs(truth), "disclosed": intsAny(disclosed), "ts": hxs(ts)}
						if nonrev {
							op["sigviews"] = sigViews(tree, []*KeyPair{kp})
						}
						emit(op)
						for j, r := range proof.AResponses {
							if j == 0 || (nonrev && j == revIndex) {
								continue
							}
							rnd := new(big.Int).Sub(r, new(big.Int).Mul(proof.C, expOf(pk.Params.Lm, truth[j])))
							if rnd.BitLen() > maxbits {
								maxbits = rnd.BitLen()
							}
						}
					}
				}
			}
		}
		emit(Op{"op": "randstat", "class": "randomizer-length", "label": "ok", "maxbits": maxbits, "lmcommit": int(pk.Params.LmCommit), "keyid": kp.id})
	}
	// the non-revocation variant with the revocation attribute itself among the chosen attributes
	// (known finding, hunting round): the property quantifies over every choice but the secret key.
	// Kept last so that it draws nothing before the classes above.
	{
		kp := fixedKey("k1024a", true)
		pk := kp.pk
		for _, disclosed := range [][]int{{3}, {1, 3}, {3, 2, 1}} {
			rs := revSetup(kp)
			attrs := []*big.Int{attrValue(g, pk.Params.Lm), attrValue(g, pk.Params.Lm), rs.witness.E}
			cred := issueCred(kp, randSecret(g), attrs)
			cred.NonRevocationWitness = rs.witness
			ctx, nonce := g.bits(256), g.bits(int(pk.Params.Lstatzk))
			res := "accept"
			if proof, err := cred.CreateDisclosureProof(disclosed, nil, true, ctx, nonce); err != nil {
				res = fmt.Sprintf("refused: %v", err)
			} else if !proof.Verify(pk, ctx, nonce, false) {
				res = "unprovable: the prover returns a proof without error, the verifier rejects it"
			}
			emit(Op{"op": "recorded", "class": "subset-with-revocation-attribute-nonrev", "label": "accept", "nomodel": true,
				"fkey": "C04/disclosed-revocation-attribute", "result": res, "key": kp.id, "disclosed": intsAny(disclosed)})
		}
	}
}

// disclosedValue: a hidden value that coincides with a value that IS disclosed (two attributes
// with the same content) is of course visible; it is not a leak.
func disclosedValue(attrs []*big.Int, dset map[int]bool, a *big.Int) bool {
	for i, x := range attrs {
		if dset[i] && x.Cmp(a) == 0 {
			return true
		}
	}
	return false
}

func canonD(p *gabi.ProofD) string {
	m := func(mm map[int]*big.Int) string {
		s := ""
		for n, k := range sortedKeys(mm) {
			if n > 0 {
				s += ","
			}
			s += fmt.Sprintf("%d:%s", k, showInt(mm[k]))
		}
		return s
	}
	return fmt.Sprintf("c=%s A=%s e=%s v=%s ar=[%s] ad=[%s]", showInt(p.C), showInt(p.A), showInt(p.EResponse), showInt(p.VResponse), m(p.AResponses), m(p.ADisclosed))
}

func init() {
	// replayD: the proof the real prover produced at generation time (embedded in the line)
	executors["replayD"] = func(o Op) string { return o.str("produced") }
}

// replayDOp runs the real prover and records the randomness it drew (through the verif hooks)
// so that the model prover can be replayed on exactly the same draws.
func replayDOp(g *Rng, kp *KeyPair, cred *gabi.Credential, truth []*big.Int, disclosed []int, issig bool) Op {
	pk := kp.pk
	ctx, nonce := g.bits(256), g.bits(int(pk.Params.Lstatzk))
	b, err := cred.CreateDisclosureProofBuilder(disclosed, nil, false)
	if err != nil {
		panic(err)
	}
	skRand := g.bits(int(592))
	c, err := gabi.ProofBuilderList{b}.ChallengeWithRandomizers(ctx, nonce, map[string]*big.Int{"secretkey": skRand}, issig)
	if err != nil {
		panic(err)
	}
	proof := b.CreateProof(c).(*gabi.ProofD)
	eC, vC, attr := b.VerifRandomizers()
	rs := b.VerifRandomizedSignature()
	// v' = v - e*r
	r := new(big.Int).Sub(cred.Signature.V, rs.V)
	r.Div(r, cred.Signature.E)
	var attrs []any
	for _, k := range sortedKeys(attr) {
		attrs = append(attrs, []any{hxi(int64(k)), hx(attr[k])})
	}
	return Op{"op": "replayD", "class": "prover-replay", "key": kp.id,
		"sig":   map[string]any{"A": hx(cred.Signature.A), "e": hx(cred.Signature.E), "v": hx(cred.Signature.V), "KeyshareP": nil},
		"attrs": hxs(truth), "disclosed": intsAny(disclosed),
		"rnd":     map[string]any{"r": hx(r), "eCommit": hx(eC), "vCommit": hx(vC), "attr": attrs},
		"context": hx(ctx), "nonce": hx(nonce), "issig": issig, "produced": canonD(proof)}
}
