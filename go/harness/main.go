// Command harness drives the real gabi code (built from /repo with -tags verif) for the
// correspondence check: `gen` writes labelled operation lines, `exec` runs each line against
// the real implementation and prints one canonical result line per operation.
package main

import (
	"bufio"
	"encoding/json"
	"flag"
	"fmt"
	"os"
	"runtime/debug"
	"strings"
)

type genFunc func(g *Rng, tier string, emit func(Op))
type execFunc func(o Op) string

var generators = map[string]genFunc{}
var executors = map[string]execFunc{}

// children are sub-commands an executor runs in a process of its own, so that a call that does not
// return can be abandoned (and its goroutines killed) after a deadline.
var children = map[string]func(args []string){}

func main() {
	if len(os.Args) < 2 {
		fmt.Fprintln(os.Stderr, "usage: harness gen|exec ...")
		os.Exit(2)
	}
	switch os.Args[1] {
	case "gen":
		fs := flag.NewFlagSet("gen", flag.ExitOnError)
		prop := fs.String("prop", "", "property id")
		seed := fs.Uint64("seed", 1, "seed")
		tier := fs.String("tier", "quick", "quick|thorough")
		out := fs.String("out", "-", "output file")
		fs.Parse(os.Args[2:])
		gen, ok := generators[*prop]
		if !ok {
			fmt.Fprintln(os.Stderr, "no generator for", *prop)
			os.Exit(2)
		}
		w := bufio.NewWriterSize(os.Stdout, 1<<20)
		if *out != "-" {
			f, err := os.Create(*out)
			if err != nil {
				panic(err)
			}
			defer f.Close()
			w = bufio.NewWriterSize(f, 1<<20)
		}
		n := 0
		gen(newRng(*seed, *prop), *tier, func(o Op) {
			o["seq"] = n
			n++
			w.WriteString(o.line())
			w.WriteByte('\n')
		})
		w.Flush()
	case "exec":
		sc := bufio.NewScanner(os.Stdin)
		sc.Buffer(make([]byte, 1<<20), 1<<28)
		w := bufio.NewWriterSize(os.Stdout, 1<<16)
		for sc.Scan() {
			line := strings.TrimSpace(sc.Text())
			if line == "" {
				continue
			}
			w.WriteString(execLine(line))
			w.WriteByte('\n')
			w.Flush()
		}
	default:
		if f, ok := children[os.Args[1]]; ok {
			f(os.Args[2:]) // helper process of an executor (killed by its parent on a deadline)
			return
		}
		fmt.Fprintln(os.Stderr, "unknown command")
		os.Exit(2)
	}
}

func execLine(line string) (res string) {
	var o Op
	dec := json.NewDecoder(strings.NewReader(line))
	dec.UseNumber()
	if err := dec.Decode(&o); err != nil {
		return "bad-op json"
	}
	name := o.str("op")
	f, ok := executors[name]
	if !ok {
		return "bad-op unknown " + name
	}
	defer func() {
		if r := recover(); r != nil {
			if os.Getenv("VERIF_TRACE") != "" {
				fmt.Fprintf(os.Stderr, "panic in %s: %v\n%s\n", name, r, debug.Stack())
			}
			res = "panic"
		}
	}()
	return f(o)
}
