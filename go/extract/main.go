// Command extract re-reads the gabi sources with go/ast and prints GabiModel/Generated.lean:
// the constants and small tables the Lean theorems depend on, translated from what the code
// says now, plus fingerprints of the anchored functions.
package main

import (
	"bytes"
	"crypto/sha256"
	"fmt"
	"go/ast"
	"go/parser"
	"go/printer"
	"go/token"
	"os"
	"path/filepath"
	"sort"
	"strconv"
	"strings"
)

var fset = token.NewFileSet()

func parse(repo, rel string) *ast.File {
	f, err := parser.ParseFile(fset, filepath.Join(repo, rel), nil, parser.SkipObjectResolution)
	if err != nil {
		fail("parse %s: %v", rel, err)
	}
	return f
}

func fail(format string, a ...any) {
	fmt.Fprintf(os.Stderr, "extract: "+format+"\n", a...)
	os.Exit(1)
}

func src(n ast.Node) string {
	var b bytes.Buffer
	printer.Fprint(&b, fset, n)
	return b.String()
}

// findVar returns the value expression of a package-level var/const `name`.
func findVar(f *ast.File, name string) ast.Expr {
	for _, d := range f.Decls {
		gd, ok := d.(*ast.GenDecl)
		if !ok {
			continue
		}
		for _, s := range gd.Specs {
			vs, ok := s.(*ast.ValueSpec)
			if !ok {
				continue
			}
			for i, n := range vs.Names {
				if n.Name == name && i < len(vs.Values) {
					return vs.Values[i]
				}
			}
		}
	}
	return nil
}

func findFunc(f *ast.File, recv, name string) *ast.FuncDecl {
	for _, d := range f.Decls {
		fd, ok := d.(*ast.FuncDecl)
		if !ok || fd.Name.Name != name {
			continue
		}
		r := ""
		if fd.Recv != nil && len(fd.Recv.List) > 0 {
			r = strings.TrimLeft(src(fd.Recv.List[0].Type), "*")
		}
		if r == recv {
			return fd
		}
	}
	return nil
}

func intLit(e ast.Expr) string {
	switch v := e.(type) {
	case *ast.BasicLit:
		if v.Kind == token.INT {
			n, err := strconv.ParseUint(v.Value, 0, 64)
			if err != nil {
				fail("bad int %s", v.Value)
			}
			return strconv.FormatUint(n, 10)
		}
	case *ast.UnaryExpr:
		if v.Op == token.SUB {
			return "-" + intLit(v.X)
		}
	case *ast.ParenExpr:
		return intLit(v.X)
	}
	fail("not an integer literal: %s", src(e))
	return ""
}

// arith translates a Go arithmetic expression over `base.X` fields and locals to Lean (Nat).
func arith(e ast.Expr) string {
	switch v := e.(type) {
	case *ast.BasicLit:
		return intLit(v)
	case *ast.Ident:
		return v.Name
	case *ast.SelectorExpr:
		return "b." + v.Sel.Name
	case *ast.ParenExpr:
		return "(" + arith(v.X) + ")"
	case *ast.BinaryExpr:
		switch v.Op {
		case token.ADD, token.MUL, token.SUB:
			return "(" + arith(v.X) + " " + v.Op.String() + " " + arith(v.Y) + ")"
		}
	}
	fail("unsupported arithmetic expression: %s", src(e))
	return ""
}

func fields(cl *ast.CompositeLit) map[string]ast.Expr {
	m := map[string]ast.Expr{}
	for _, el := range cl.Elts {
		kv, ok := el.(*ast.KeyValueExpr)
		if !ok {
			fail("positional composite literal: %s", src(cl))
		}
		m[src(kv.Key)] = kv.Value
	}
	return m
}

func fingerprint(fd *ast.FuncDecl) string {
	if fd == nil {
		return "missing"
	}
	h := sha256.Sum256([]byte(src(fd)))
	return fmt.Sprintf("%x", h[:8])
}

func main() {
	if len(os.Args) < 2 {
		fail("usage: extract /repo")
	}
	repo := os.Args[1]
	var out strings.Builder
	w := func(format string, a ...any) { fmt.Fprintf(&out, format, a...) }
	w("/-\n  GabiModel.Generated — REGENERATED on every check from /repo by /verif/go/extract.\n  Do not edit. Constants and tables as the Go source states them now.\n-/\nnamespace Gabi.Gen\n\n")

	// ---- gabikeys/sysparams.go
	sp := parse(repo, "gabikeys/sysparams.go")
	w("structure BaseParams where\n  LePrime : Nat\n  Lh : Nat\n  Lm : Nat\n  Ln : Nat\n  Lstatzk : Nat\nderiving Repr, DecidableEq\n\n")
	w("structure DerivedParams where\n  Le : Nat\n  LeCommit : Nat\n  LmCommit : Nat\n  LRA : Nat\n  LsCommit : Nat\n  Lv : Nat\n  LvCommit : Nat\n  LvPrime : Nat\n  LvPrimeCommit : Nat\nderiving Repr, DecidableEq\n\n")
	bp := findVar(sp, "defaultBaseParameters")
	cl, ok := bp.(*ast.CompositeLit)
	if !ok {
		fail("defaultBaseParameters is not a composite literal")
	}
	type entry struct {
		key string
		f   map[string]ast.Expr
	}
	var entries []entry
	for _, el := range cl.Elts {
		kv := el.(*ast.KeyValueExpr)
		entries = append(entries, entry{intLit(kv.Key), fields(kv.Value.(*ast.CompositeLit))})
	}
	sort.Slice(entries, func(i, j int) bool { a, _ := strconv.Atoi(entries[i].key); b, _ := strconv.Atoi(entries[j].key); return a < b })
	w("/-- `defaultBaseParameters` (gabikeys/sysparams.go). -/\ndef defaultBaseParameters : List (Nat × BaseParams) := [\n")
	for i, e := range entries {
		sep := ","
		if i == len(entries)-1 {
			sep = ""
		}
		for _, k := range []string{"LePrime", "Lh", "Lm", "Ln", "Lstatzk"} {
			if e.f[k] == nil {
				fail("base parameter %s missing for %s", k, e.key)
			}
		}
		w("  (%s, { LePrime := %s, Lh := %s, Lm := %s, Ln := %s, Lstatzk := %s })%s\n", e.key,
			intLit(e.f["LePrime"]), intLit(e.f["Lh"]), intLit(e.f["Lm"]), intLit(e.f["Ln"]), intLit(e.f["Lstatzk"]), sep)
	}
	w("]\n\n")
	md := findFunc(sp, "", "MakeDerivedParameters")
	if md == nil {
		fail("MakeDerivedParameters not found")
	}
	w("/-- `MakeDerivedParameters`, translated statement by statement. -/\ndef makeDerivedParameters (b : BaseParams) : DerivedParams :=\n")
	for _, st := range md.Body.List {
		switch s := st.(type) {
		case *ast.AssignStmt:
			if len(s.Lhs) != 1 || len(s.Rhs) != 1 || s.Tok != token.DEFINE {
				fail("unsupported statement in MakeDerivedParameters: %s", src(s))
			}
			w("  let %s : Nat := %s\n", src(s.Lhs[0]), arith(s.Rhs[0]))
		case *ast.ReturnStmt:
			rcl, ok := s.Results[0].(*ast.CompositeLit)
			if !ok {
				fail("MakeDerivedParameters does not return a literal")
			}
			f := fields(rcl)
			names := []string{"Le", "LeCommit", "LmCommit", "LRA", "LsCommit", "Lv", "LvCommit", "LvPrime", "LvPrimeCommit"}
			var parts []string
			for _, n := range names {
				if f[n] == nil {
					fail("derived parameter %s missing", n)
				}
				parts = append(parts, fmt.Sprintf("%s := %s", n, arith(f[n])))
			}
			if len(f) != len(names) {
				fail("unexpected derived parameter fields")
			}
			w("  { %s }\n\n", strings.Join(parts, ",\n    "))
		default:
			fail("unsupported statement in MakeDerivedParameters: %s", src(st))
		}
	}

	// ---- revocation/proof.go : Parameters and proofstructure
	rp := parse(repo, "revocation/proof.go")
	pv := findVar(rp, "Parameters")
	pcl, ok := pv.(*ast.CompositeLit)
	if !ok {
		fail("revocation.Parameters is not a composite literal")
	}
	pf := fields(pcl)
	for _, k := range []string{"AttributeSize", "ChallengeLength", "ZkStat"} {
		if pf[k] == nil {
			fail("revocation.Parameters.%s missing", k)
		}
		w("def rev%s : Nat := %s\n", k, intLit(pf[k]))
	}
	w("\n")
	ps := findVar(rp, "proofstructure")
	pscl, ok := ps.(*ast.CompositeLit)
	if !ok {
		fail("revocation.proofstructure is not a composite literal")
	}
	w("/-- revocation `proofstructure`: per relation (name, lhs [(base, power)], rhs [(base, secret, power)]). -/\n")
	w("def revProofStructure : List (String × List (String × Int) × List (String × String × Int)) := [\n")
	psf := fields(pscl)
	for i, rel := range []string{"cr", "nu", "one"} {
		r, ok := psf[rel].(*ast.CompositeLit)
		if !ok {
			fail("proofstructure.%s missing", rel)
		}
		rf := fields(r)
		var lhs, rhs []string
		for _, el := range rf["Lhs"].(*ast.CompositeLit).Elts {
			ef := fields(el.(*ast.CompositeLit))
			pw := src(ef["Power"])
			if pw != "bigOne" {
				fail("unexpected Lhs power %s", pw)
			}
			lhs = append(lhs, fmt.Sprintf("(%s, 1)", src(ef["Base"])))
		}
		for _, el := range rf["Rhs"].(*ast.CompositeLit).Elts {
			ef := fields(el.(*ast.CompositeLit))
			rhs = append(rhs, fmt.Sprintf("(%s, %s, %s)", src(ef["Base"]), src(ef["Secret"]), intLit(ef["Power"])))
		}
		sep := ","
		if i == 2 {
			sep = ""
		}
		w("  (%q, [%s], [%s])%s\n", rel, strings.Join(lhs, ", "), strings.Join(rhs, ", "), sep)
	}
	w("]\n\n")
	sn := findVar(rp, "secretNames")
	var names []string
	for _, el := range sn.(*ast.CompositeLit).Elts {
		names = append(names, src(el))
	}
	w("def revSecretNames : List String := [%s]\n\n", strings.Join(names, ", "))

	// ---- internal/common/randomprime.go
	rpf := parse(repo, "internal/common/randomprime.go")
	spv := findVar(rpf, "SmallPrimes").(*ast.CompositeLit)
	var primes []string
	for _, el := range spv.Elts {
		primes = append(primes, intLit(el))
	}
	w("def smallPrimes : List Nat := [%s]\n", strings.Join(primes, ", "))
	spp := findVar(rpf, "SmallPrimesProduct")
	// new(big.Int).SetUint64(N)
	call, ok := spp.(*ast.CallExpr)
	if !ok || len(call.Args) != 1 {
		fail("SmallPrimesProduct has unexpected form")
	}
	w("def smallPrimesProduct : Nat := %s\n\n", intLit(call.Args[0]))

	// ---- rangeproof/splitutils.go : FourSquaresSplitter.Ld
	su := parse(repo, "rangeproof/splitutils.go")
	ld := findFunc(su, "FourSquaresSplitter", "Ld")
	if ld == nil || len(ld.Body.List) != 1 {
		fail("FourSquaresSplitter.Ld has unexpected form")
	}
	w("def fourSquaresLd : Nat := %s\n\n", intLit(ld.Body.List[0].(*ast.ReturnStmt).Results[0]))

	// ---- keyproof/securityparams.go
	kp := parse(repo, "keyproof/securityparams.go")
	for _, k := range []string{"almostSafePrimeProductNonceSize", "almostSafePrimeProductIters", "disjointPrimeProductIters", "primePowerProductIters", "squareFreeIters", "minimumFactor", "rangeProofIters", "rangeProofEpsilon"} {
		v := findVar(kp, k)
		if v == nil {
			fail("keyproof constant %s missing", k)
		}
		w("def kp_%s : Nat := %s\n", k, intLit(v))
	}
	w("\n")

	// ---- fingerprints of anchored functions (informational: a change escalates the run)
	type anchor struct{ file, recv, name string }
	anchors := []anchor{
		{"proofs.go", "", "createChallenge"}, {"proofs.go", "ProofD", "reconstructZ"}, {"proofs.go", "ProofD", "correctResponseSizes"},
		{"proofs.go", "ProofD", "VerifyWithChallenge"}, {"proofs.go", "ProofD", "ChallengeContribution"}, {"proofs.go", "ProofD", "revocationAttrIndex"},
		{"proofs.go", "ProofU", "reconstructUcommit"}, {"proofs.go", "ProofU", "correctResponseSizes"}, {"proofs.go", "ProofS", "Verify"},
		{"prooflist.go", "ProofList", "Verify"}, {"prooflist.go", "ProofBuilderList", "ChallengeWithRandomizers"},
		{"clsignature.go", "CLSignature", "Verify"}, {"clsignature.go", "CLSignature", "Randomize"}, {"clsignature.go", "", "signMessageBlockAndCommitment"},
		{"credential.go", "", "getUndisclosedAttributes"}, {"credential.go", "DisclosureProofBuilder", "CreateProof"}, {"credential.go", "DisclosureProofBuilder", "Commit"},
		{"credential.go", "Credential", "NonrevPrepareCache"}, {"credential.go", "Credential", "nonrevConsumeBuilder"},
		{"builder.go", "CredentialBuilder", "ConstructCredential"}, {"builder.go", "ProofList", "UnmarshalJSON"},
		{"issuer.go", "Issuer", "proveSignature"}, {"keyshare.go", "", "KeyshareResponse"},
		{"internal/common/hashtool.go", "", "HashCommit"}, {"internal/common/hashtool.go", "", "GetHashNumber"},
		{"internal/common/mathutil.go", "", "ModInverse"}, {"internal/common/mathutil.go", "", "LegendreSymbol"}, {"internal/common/mathutil.go", "", "Crt"},
		{"internal/common/mathutil.go", "", "SumFourSquares"}, {"internal/common/mathutil.go", "", "PrimeSqrt"}, {"internal/common/mathutil.go", "", "ModSqrt"},
		{"internal/common/fastmod.go", "FastMod", "Mod"}, {"internal/common/fastrandom.go", "CPRNG", "Read"},
		{"revocation/api.go", "Update", "Verify"}, {"revocation/api.go", "EventList", "Verify"}, {"revocation/api.go", "Update", "Product"},
		{"revocation/api.go", "Hash", "Equal"}, {"revocation/api.go", "Event", "hashBytes"}, {"revocation/api.go", "Update", "Prepend"},
		{"revocation/proof.go", "Witness", "Update"}, {"revocation/proof.go", "Proof", "VerifyWithChallenge"},
		{"rangeproof/proof.go", "Proof", "ProvesStatement"}, {"rangeproof/proof.go", "Proof", "ProvenStatement"}, {"rangeproof/proof.go", "Proof", "ExtractStructure"},
		{"rangeproof/proof.go", "ProofStructure", "VerifyProofStructure"}, {"rangeproof/proof.go", "", "newWithParams"},
		{"gabikeys/keys.go", "", "findMatch"}, {"gabikeys/keys.go", "", "GenerateKeyPair"}, {"safeprime/safeprime.go", "", "GenerateConcurrent"},
		{"safeprime/safeprime.go", "", "prepareBytes"},
	}
	cache := map[string]*ast.File{}
	// fingerprints go to a side file (never imported by proofs, so a code edit does not
	// invalidate the Lean build unless a translated fact changed)
	var fp strings.Builder
	fp.WriteString("{\n")
	for i, a := range anchors {
		f := cache[a.file]
		if f == nil {
			f = parse(repo, a.file)
			cache[a.file] = f
		}
		sep := ","
		if i == len(anchors)-1 {
			sep = ""
		}
		fmt.Fprintf(&fp, "  %q: %q%s\n", a.file+":"+a.recv+"."+a.name, fingerprint(findFunc(f, a.recv, a.name)), sep)
	}
	fp.WriteString("}\n")
	if len(os.Args) > 2 {
		if err := os.WriteFile(os.Args[2], []byte(fp.String()), 0644); err != nil {
			fail("write fingerprints: %v", err)
		}
	}
	w("end Gabi.Gen\n")
	fmt.Print(out.String())
}
