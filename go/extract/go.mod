module gabiverif/extract

go 1.23
